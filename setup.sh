#!/bin/sh
# Build the extractor and warm the per-configuration target directories (offline).
set -e
cd "$(dirname "$0")"
export CARGO_NET_OFFLINE=true
(cd akd-lint && cargo +nightly build --release --offline)
# one extraction per quick-tier configuration warms /verif/.target/D and the fact cache
python3 -m analysis.extract D W
