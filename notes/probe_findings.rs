// scratch probes confirming suspected findings against the real code (not part of /verif)
#![allow(unused)]
use akd_core::configuration::Configuration;
use std::collections::HashMap;
use std::sync::atomic::{AtomicBool, AtomicUsize, Ordering};
use std::sync::Arc;

use crate::{
    append_only_zks::{AzksParallelismConfig, InsertMode},
    auditor::verify_consecutive_append_only,
    client::{
        key_history_verify, lookup_verify, verify_membership_for_tests_only,
        verify_nonmembership_for_tests_only,
    },
    directory::{Directory, ReadOnlyDirectory},
    ecvrf::{HardCodedAkdVRF, VRFKeyStorage},
    errors::{AkdError, StorageError},
    storage::{
        manager::StorageManager,
        memory::AsyncInMemoryDatabase,
        types::{DbRecord, KeyData, ValueState, ValueStateRetrievalFlag},
        Database, DbSetState, Storable,
    },
    test_config, AkdLabel, AkdValue, Azks, AzksElement, AzksValue, Direction, HistoryParams,
    HistoryVerificationParams, MembershipProof, NodeLabel, NonMembershipProof,
    SingleAppendOnlyProof,
};

fn lbl(bytes: &[u8]) -> NodeLabel {
    let mut v = [0u8; 32];
    v[..bytes.len()].copy_from_slice(bytes);
    NodeLabel::new(v, 256)
}

// ---------------- F1: non-membership anchored at a shallow ancestor ----------------
test_config!(probe_f1_shallow_anchor);
async fn probe_f1_shallow_anchor<TC: Configuration>() -> Result<(), AkdError> {
    let db = StorageManager::new_no_cache(AsyncInMemoryDatabase::new());
    let mut azks = Azks::new::<TC, _>(&db).await?;
    let mut set = vec![];
    // labels sharing long prefixes so that the target leaf is deep
    for (i, b) in [
        [0x00u8, 0x00],
        [0x00, 0x01],
        [0x00, 0x80],
        [0x40, 0x00],
        [0x80, 0x00],
        [0xC0, 0x00],
    ]
    .iter()
    .enumerate()
    {
        set.push(AzksElement {
            label: lbl(b),
            value: AzksValue(TC::hash(&[i as u8])),
        });
    }
    azks.batch_insert_nodes::<TC, _>(
        &db,
        set.clone(),
        InsertMode::Directory,
        AzksParallelismConfig::disabled(),
    )
    .await?;
    let root = azks.get_root_hash::<TC, _>(&db).await?;
    let target = set[0].label; // present leaf 0x0000...
    let mp = azks.get_membership_proof::<TC, _>(&db, target).await?;
    verify_membership_for_tests_only::<TC>(root, &mp).unwrap();
    assert!(mp.sibling_proofs.len() >= 3, "depth {}", mp.sibling_proofs.len());

    // fold from the leaf upward to obtain the value of each on-path node
    let n = mp.sibling_proofs.len();
    let mut vals = vec![mp.hash_val; n + 1]; // vals[k] = value of on-path node below sibling_proofs[k-1].. ; vals[n] = leaf
    let mut labels = vec![mp.label; n + 1];
    let mut cur_val = mp.hash_val;
    let mut cur_label = mp.label;
    for k in (0..n).rev() {
        let sp = &mp.sibling_proofs[k];
        let sib = sp.siblings[0];
        let (lv, ll, rv, rl) = match sp.direction {
            Direction::Left => (cur_val, cur_label, sib.value, sib.label),
            Direction::Right => (sib.value, sib.label, cur_val, cur_label),
        };
        vals[k + 1] = cur_val;
        labels[k + 1] = cur_label;
        cur_val = TC::compute_parent_hash_from_children(
            &lv,
            &ll.value::<TC>(),
            &rv,
            &rl.value::<TC>(),
        );
        cur_label = sp.label;
    }
    // anchor at ancestor index k (sibling_proofs[k].label), for k such that the on-path child is not the leaf
    let mut accepted = 0;
    for k in 0..n - 1 {
        let sp = &mp.sibling_proofs[k];
        let on_path = AzksElement {
            label: labels[k + 1],
            value: vals[k + 1],
        };
        let sib = sp.siblings[0];
        let children = match sp.direction {
            Direction::Left => [on_path, sib],
            Direction::Right => [sib, on_path],
        };
        let anchor_hash = TC::compute_parent_hash_from_children(
            &children[0].value,
            &children[0].label.value::<TC>(),
            &children[1].value,
            &children[1].label.value::<TC>(),
        );
        let forged = NonMembershipProof {
            label: target,
            longest_prefix: sp.label,
            longest_prefix_children: children,
            longest_prefix_membership_proof: MembershipProof {
                label: sp.label,
                hash_val: anchor_hash,
                sibling_proofs: mp.sibling_proofs[..k].to_vec(),
            },
        };
        let res = verify_nonmembership_for_tests_only::<TC>(root, &forged);
        println!("F1 anchor depth {k} (label len {}): {:?}", sp.label.label_len, res.is_ok());
        if res.is_ok() {
            accepted += 1;
        }
    }
    println!("F1 RESULT accepted_forged_nonmembership_for_present_leaf={accepted}");
    Ok(())
}

// ---------------- F2: auditor accepts overlapping node set ----------------
async fn auditor_root<TC: Configuration>(
    nodes: Vec<AzksElement>,
    latest: Option<u64>,
) -> Result<crate::Digest, AkdError> {
    let manager = StorageManager::new_no_cache(
        AsyncInMemoryDatabase::new_with_remove_child_nodes_on_insertion(),
    );
    let mut azks = Azks::new::<TC, _>(&manager).await?;
    if let Some(e) = latest {
        azks.latest_epoch = e;
    }
    azks.batch_insert_nodes::<TC, _>(
        &manager,
        nodes,
        InsertMode::Auditor,
        AzksParallelismConfig::default(),
    )
    .await?;
    azks.get_root_hash::<TC, _>(&manager).await
}

test_config!(probe_f2_auditor_overlap);
async fn probe_f2_auditor_overlap<TC: Configuration>() -> Result<(), AkdError> {
    // honest tree at epoch 1 with four leaves, two on each side
    let db = StorageManager::new_no_cache(AsyncInMemoryDatabase::new());
    let mut azks = Azks::new::<TC, _>(&db).await?;
    let leaves: Vec<AzksElement> = [[0x00u8, 0x00], [0x20, 0x00], [0x80, 0x00], [0xC0, 0x00]]
        .iter()
        .enumerate()
        .map(|(i, b)| AzksElement {
            label: lbl(b),
            value: AzksValue(TC::hash(&[i as u8])),
        })
        .collect();
    azks.batch_insert_nodes::<TC, _>(
        &db,
        leaves.clone(),
        InsertMode::Directory,
        AzksParallelismConfig::disabled(),
    )
    .await?;
    let start_hash = azks.get_root_hash::<TC, _>(&db).await?;
    // the two children of the root, as "unchanged" subtree roots, taken from a membership proof
    let mp = azks.get_membership_proof::<TC, _>(&db, leaves[0].label).await?;
    let sp0 = &mp.sibling_proofs[0]; // root level: sibling = right child of root
    let right_child = sp0.siblings[0];
    // left child of root = on-path node below root: recompute its value by folding
    let mut cur_val = mp.hash_val;
    let mut cur_label = mp.label;
    for k in (1..mp.sibling_proofs.len()).rev() {
        let sp = &mp.sibling_proofs[k];
        let sib = sp.siblings[0];
        let (lv, ll, rv, rl) = match sp.direction {
            Direction::Left => (cur_val, cur_label, sib.value, sib.label),
            Direction::Right => (sib.value, sib.label, cur_val, cur_label),
        };
        cur_val = TC::compute_parent_hash_from_children(
            &lv,
            &ll.value::<TC>(),
            &rv,
            &rl.value::<TC>(),
        );
        cur_label = sp.label;
    }
    let left_child = AzksElement {
        label: cur_label,
        value: cur_val,
    };
    println!(
        "F2 left child len {} right child len {}",
        left_child.label.label_len, right_child.label.label_len
    );
    let unchanged = vec![left_child, right_child];
    // sanity: unchanged reproduces the start hash
    assert_eq!(start_hash, auditor_root::<TC>(unchanged.clone(), None).await?);

    // malicious transition: "insert" a leaf that lies below the left child.
    let evil = AzksElement {
        label: lbl(&[0x10, 0x00]),
        value: AzksValue(TC::hash(b"evil")),
    };
    assert!(left_child.label.is_prefix_of(&evil.label));
    let end_epoch = 2u64;
    let mut end_nodes = unchanged.clone();
    let mut hashed = evil;
    hashed.value = AzksValue(TC::hash_leaf_with_commitment(evil.value, end_epoch).0);
    end_nodes.push(hashed);
    let end_hash = auditor_root::<TC>(end_nodes, Some(end_epoch - 1)).await?;

    // what would the end hash be if the left subtree were really kept? (honest insertion)
    let mut azks2 = azks.clone();
    azks2
        .batch_insert_nodes::<TC, _>(
            &db,
            vec![evil],
            InsertMode::Directory,
            AzksParallelismConfig::disabled(),
        )
        .await?;
    let honest_end = azks2.get_root_hash::<TC, _>(&db).await?;

    let proof = SingleAppendOnlyProof {
        inserted: vec![evil],
        unchanged_nodes: unchanged,
    };
    let res = verify_consecutive_append_only::<TC>(&proof, start_hash, end_hash, end_epoch).await;
    println!(
        "F2 RESULT accepted={} end_hash_differs_from_honest={}",
        res.is_ok(),
        end_hash != honest_end
    );
    // and the old leaves are gone from the accepted end tree: a tree consisting only of right child + evil
    let only = auditor_root::<TC>(
        vec![
            right_child,
            AzksElement {
                label: evil.label,
                value: AzksValue(TC::hash_leaf_with_commitment(evil.value, end_epoch).0),
            },
        ],
        Some(end_epoch - 1),
    )
    .await?;
    println!("F2 end tree equals tree without the left subtree's leaves (modulo interior label): {}", only == end_hash);
    Ok(())
}

// ---------------- F3: epoch/version confusion in get_user_state_versions ----------------
#[tokio::test]
async fn probe_f3_versions_in_txn() {
    let db = AsyncInMemoryDatabase::new();
    let sm = StorageManager::new_no_cache(db);
    let user = AkdLabel::from("u");
    let newu = AkdLabel::from("n");
    let vs = |u: &AkdLabel, epoch: u64, version: u64, val: &str| {
        DbRecord::ValueState(ValueState {
            value: AkdValue::from(val),
            version,
            label: NodeLabel::new([0u8; 32], 256),
            epoch,
            username: u.clone(),
        })
    };
    sm.set(vs(&user, 3, 1, "A")).await.unwrap();
    assert!(sm.begin_transaction());
    sm.set(vs(&user, 5, 2, "B")).await.unwrap();
    sm.set(vs(&newu, 5, 1, "C")).await.unwrap();
    let during = sm
        .get_user_state_versions(&[user.clone(), newu.clone()], ValueStateRetrievalFlag::LeqEpoch(5))
        .await
        .unwrap();
    sm.set(DbRecord::Azks(Azks { latest_epoch: 5, num_nodes: 1 })).await.unwrap();
    sm.commit_transaction().await.unwrap();
    let after = sm
        .get_user_state_versions(&[user.clone(), newu.clone()], ValueStateRetrievalFlag::LeqEpoch(5))
        .await
        .unwrap();
    println!("F3 during={:?}", during);
    println!("F3 after ={:?}", after);
    println!("F3 RESULT differs={}", during != after);
}

// ---------------- fault-injecting database wrapper ----------------
#[derive(Clone)]
struct FaultyDb {
    inner: AsyncInMemoryDatabase,
    fail_commit: Arc<AtomicBool>,
    // serve this Azks for the next `n` Azks reads
    azks_override: Arc<std::sync::Mutex<Option<(Azks, usize)>>>,
    azks_reads: Arc<AtomicUsize>,
}
impl FaultyDb {
    fn new() -> Self {
        Self {
            inner: AsyncInMemoryDatabase::new(),
            fail_commit: Arc::new(AtomicBool::new(false)),
            azks_override: Arc::new(std::sync::Mutex::new(None)),
            azks_reads: Arc::new(AtomicUsize::new(0)),
        }
    }
}
#[async_trait::async_trait]
impl Database for FaultyDb {
    async fn set(&self, record: DbRecord) -> Result<(), StorageError> {
        self.inner.set(record).await
    }
    async fn batch_set(&self, records: Vec<DbRecord>, state: DbSetState) -> Result<(), StorageError> {
        if let DbSetState::TransactionCommit = state {
            if self.fail_commit.load(Ordering::SeqCst) {
                return Err(StorageError::Connection("injected commit failure".to_string()));
            }
        }
        self.inner.batch_set(records, state).await
    }
    async fn get<St: Storable>(&self, id: &St::StorageKey) -> Result<DbRecord, StorageError> {
        if St::data_type() == crate::storage::types::StorageType::Azks {
            self.azks_reads.fetch_add(1, Ordering::SeqCst);
            let mut g = self.azks_override.lock().unwrap();
            if let Some((azks, n)) = g.clone() {
                if n > 0 {
                    *g = Some((azks.clone(), n - 1));
                    return Ok(DbRecord::Azks(azks));
                }
            }
        }
        self.inner.get::<St>(id).await
    }
    async fn batch_get<St: Storable>(&self, ids: &[St::StorageKey]) -> Result<Vec<DbRecord>, StorageError> {
        self.inner.batch_get::<St>(ids).await
    }
    async fn get_user_data(&self, username: &AkdLabel) -> Result<KeyData, StorageError> {
        self.inner.get_user_data(username).await
    }
    async fn get_user_state(&self, username: &AkdLabel, flag: ValueStateRetrievalFlag) -> Result<ValueState, StorageError> {
        self.inner.get_user_state(username, flag).await
    }
    async fn get_user_state_versions(&self, usernames: &[AkdLabel], flag: ValueStateRetrievalFlag) -> Result<HashMap<AkdLabel, (u64, AkdValue)>, StorageError> {
        self.inner.get_user_state_versions(usernames, flag).await
    }
}

// ---------------- F4: failed commit with cache ----------------
test_config!(probe_f4_failed_commit_cache);
async fn probe_f4_failed_commit_cache<TC: Configuration>() -> Result<(), AkdError> {
    for cached in [false, true] {
        let db = FaultyDb::new();
        let storage = if cached {
            StorageManager::new(db.clone(), None, None, None)
        } else {
            StorageManager::new_no_cache(db.clone())
        };
        let akd = Directory::<TC, _, _>::new(storage.clone(), HardCodedAkdVRF {}, AzksParallelismConfig::disabled()).await?;
        let e1 = akd.publish(vec![(AkdLabel::from("a"), AkdValue::from("1"))]).await?;
        db.fail_commit.store(true, Ordering::SeqCst);
        let r = akd.publish(vec![(AkdLabel::from("a"), AkdValue::from("2")), (AkdLabel::from("b"), AkdValue::from("x"))]).await;
        db.fail_commit.store(false, Ordering::SeqCst);
        let after = akd.get_epoch_hash().await;
        println!(
            "F4 cached={cached} publish_err={} txn_active={} before=({}, {}) after={:?}",
            r.is_err(),
            storage.is_transaction_active(),
            e1.0,
            hex::encode(&e1.1[..4]),
            after.as_ref().map(|eh| (eh.0, hex::encode(&eh.1[..4])))
        );
        let same = matches!(&after, Ok(eh) if *eh == e1);
        println!("F4 RESULT cached={cached} state_unchanged_after_failed_publish={same}");
        // fresh instance over the same database
        let fresh = Directory::<TC, _, _>::new(StorageManager::new_no_cache(db.clone()), HardCodedAkdVRF {}, AzksParallelismConfig::disabled()).await?;
        println!("F4 fresh instance epoch = {}", fresh.get_epoch_hash().await?.0);
    }
    Ok(())
}

// ---------------- F5: key_history re-reads the epoch record ----------------
test_config!(probe_f5_history_two_epochs);
async fn probe_f5_history_two_epochs<TC: Configuration>() -> Result<(), AkdError> {
    let db = FaultyDb::new();
    let storage = StorageManager::new_no_cache(db.clone());
    let akd = Directory::<TC, _, _>::new(storage, HardCodedAkdVRF {}, AzksParallelismConfig::disabled()).await?;
    let pk = akd.get_public_key().await?;
    let l = AkdLabel::from("a");
    let e1 = akd.publish(vec![(l.clone(), AkdValue::from("1")), (AkdLabel::from("z"), AkdValue::from("z"))]).await?;
    let azks1 = akd.retrieve_azks().await?;
    let _e2 = akd.publish(vec![(l.clone(), AkdValue::from("2")), (AkdLabel::from("y"), AkdValue::from("y"))]).await?;
    // emulate: the request's first read of the epoch record happens before the commit of epoch 2
    // (sees epoch 1), every later read sees epoch 2. Node records already carry epoch-2 data
    // with previous versions, exactly as after a real commit.
    *db.azks_override.lock().unwrap() = Some((azks1, 1));
    let before = db.azks_reads.load(Ordering::SeqCst);
    let (proof, eh) = akd.key_history(&l, HistoryParams::Complete).await?;
    let reads = db.azks_reads.load(Ordering::SeqCst) - before;
    let ok = key_history_verify::<TC>(pk.as_bytes(), eh.hash(), eh.epoch(), l.clone(), proof, HistoryVerificationParams::default());
    println!("F5 epoch record reads in one key_history = {reads}; returned epoch {} (hash matches published e1: {}); verifies={}", eh.epoch(), eh == e1, ok.is_ok());
    println!("F5 RESULT returned_pair_published={} proof_verifies={}", eh == e1, ok.is_ok());
    Ok(())
}

// ---------------- F6: reader two epochs behind ----------------
test_config!(probe_f6_two_epochs_behind);
async fn probe_f6_two_epochs_behind<TC: Configuration>() -> Result<(), AkdError> {
    let db = AsyncInMemoryDatabase::new();
    let akd = Directory::<TC, _, _>::new(StorageManager::new_no_cache(db.clone()), HardCodedAkdVRF {}, AzksParallelismConfig::disabled()).await?;
    let pk = akd.get_public_key().await?;
    let l = AkdLabel::from("a");
    let e1 = akd.publish(vec![(l.clone(), AkdValue::from("1"))]).await?;
    let azks1 = akd.retrieve_azks().await?;
    let e2 = akd.publish(vec![(l.clone(), AkdValue::from("2"))]).await?;
    let e3 = akd.publish(vec![(l.clone(), AkdValue::from("3"))]).await?;
    // reader whose epoch record is two epochs behind the node records
    db.set(DbRecord::Azks(azks1)).await.unwrap();
    let ro = ReadOnlyDirectory::<TC, _, _>::new(StorageManager::new_no_cache(db.clone()), HardCodedAkdVRF {}, AzksParallelismConfig::disabled()).await?;
    let eh = ro.get_epoch_hash().await;
    println!(
        "F6 get_epoch_hash: {:?}; published e1={} e2={} e3={}",
        eh.as_ref().map(|x| (x.0, hex::encode(&x.1[..4]))),
        hex::encode(&e1.1[..4]), hex::encode(&e2.1[..4]), hex::encode(&e3.1[..4])
    );
    let pair_ok = match &eh { Ok(x) => *x == e1, Err(_) => true };
    println!("F6 RESULT epoch_hash_is_published_pair_or_error={pair_ok}");
    match ro.lookup(l.clone()).await {
        Ok((p, eh)) => {
            let v = lookup_verify::<TC>(pk.as_bytes(), eh.hash(), eh.epoch(), l.clone(), p);
            println!("F6 lookup returned ({}, {}), published pair: {}, verifies: {}", eh.0, hex::encode(&eh.1[..4]), eh == e1, v.is_ok());
        }
        Err(e) => println!("F6 lookup error (fine): {e:?}"),
    }
    Ok(())
}

// ---------------- yielding / key-failing database wrapper ----------------
#[derive(Clone)]
struct YieldDb {
    inner: AsyncInMemoryDatabase,
    // when set, fail reads of tree nodes whose label starts with a 1 bit (right subtree)
    fail_right_reads: Arc<AtomicBool>,
    writes_outside_commit: Arc<AtomicUsize>,
}
impl YieldDb {
    fn new() -> Self {
        Self {
            inner: AsyncInMemoryDatabase::new(),
            fail_right_reads: Arc::new(AtomicBool::new(false)),
            writes_outside_commit: Arc::new(AtomicUsize::new(0)),
        }
    }
    fn is_right_node<St: Storable>(id: &St::StorageKey) -> bool {
        if St::data_type() != crate::storage::types::StorageType::TreeNode {
            return false;
        }
        let bin = St::get_full_binary_key_id(id);
        // [type, len(4), val(32)]
        let len = u32::from_be_bytes([bin[1], bin[2], bin[3], bin[4]]);
        len > 0 && (bin[5] & 0x80) != 0
    }
}
#[async_trait::async_trait]
impl Database for YieldDb {
    async fn set(&self, record: DbRecord) -> Result<(), StorageError> {
        tokio::task::yield_now().await;
        self.writes_outside_commit.fetch_add(1, Ordering::SeqCst);
        self.inner.set(record).await
    }
    async fn batch_set(&self, records: Vec<DbRecord>, state: DbSetState) -> Result<(), StorageError> {
        tokio::task::yield_now().await;
        if let DbSetState::General = state {
            self.writes_outside_commit.fetch_add(1, Ordering::SeqCst);
        }
        let r = self.inner.batch_set(records, state).await;
        tokio::task::yield_now().await;
        r
    }
    async fn get<St: Storable>(&self, id: &St::StorageKey) -> Result<DbRecord, StorageError> {
        tokio::task::yield_now().await;
        if self.fail_right_reads.load(Ordering::SeqCst) && Self::is_right_node::<St>(id) {
            return Err(StorageError::Connection("injected read failure".to_string()));
        }
        self.inner.get::<St>(id).await
    }
    async fn batch_get<St: Storable>(&self, ids: &[St::StorageKey]) -> Result<Vec<DbRecord>, StorageError> {
        tokio::task::yield_now().await;
        self.inner.batch_get::<St>(ids).await
    }
    async fn get_user_data(&self, username: &AkdLabel) -> Result<KeyData, StorageError> {
        tokio::task::yield_now().await;
        self.inner.get_user_data(username).await
    }
    async fn get_user_state(&self, username: &AkdLabel, flag: ValueStateRetrievalFlag) -> Result<ValueState, StorageError> {
        tokio::task::yield_now().await;
        self.inner.get_user_state(username, flag).await
    }
    async fn get_user_state_versions(&self, usernames: &[AkdLabel], flag: ValueStateRetrievalFlag) -> Result<HashMap<AkdLabel, (u64, AkdValue)>, StorageError> {
        tokio::task::yield_now().await;
        self.inner.get_user_state_versions(usernames, flag).await
    }
}

fn batch(prefix: &str, n: usize, val: &str) -> Vec<(AkdLabel, AkdValue)> {
    (0..n)
        .map(|i| (AkdLabel::from(format!("{prefix}{i}").as_str()), AkdValue::from(val)))
        .collect()
}

// ---------------- F8: detached left task after a failure in the right subtree ----------------
test_config!(probe_f8_detached_task);
async fn probe_f8_detached_task<TC: Configuration>() -> Result<(), AkdError> {
    use crate::append_only_zks::AzksParallelismOption;
    let db = YieldDb::new();
    let storage = StorageManager::new_no_cache(db.clone());
    let par = AzksParallelismConfig {
        insertion: AzksParallelismOption::Static(2),
        preload: AzksParallelismOption::Disabled,
    };
    let akd = Directory::<TC, _, _>::new(storage.clone(), HardCodedAkdVRF {}, par).await?;
    let e1 = akd.publish(batch("u", 16, "v1")).await?;
    let snapshot_before: Vec<DbRecord> = {
        use crate::storage::StorageUtil;
        let mut v = db.inner.batch_get_all_direct().await.unwrap();
        v.sort();
        v
    };
    let w0 = db.writes_outside_commit.load(Ordering::SeqCst);
    db.fail_right_reads.store(true, Ordering::SeqCst);
    let r = akd.publish(batch("w", 16, "v1")).await;
    db.fail_right_reads.store(false, Ordering::SeqCst);
    // let any task that is still alive run to completion
    for _ in 0..2000 {
        tokio::task::yield_now().await;
    }
    let snapshot_after: Vec<DbRecord> = {
        use crate::storage::StorageUtil;
        let mut v = db.inner.batch_get_all_direct().await.unwrap();
        v.sort();
        v
    };
    let w1 = db.writes_outside_commit.load(Ordering::SeqCst);
    println!(
        "F8 publish_err={} txn_active={} direct_db_writes_after_failure={} db_records before={} after={}",
        r.is_err(),
        storage.is_transaction_active(),
        w1 - w0,
        snapshot_before.len(),
        snapshot_after.len()
    );
    println!("F8 RESULT database_unchanged_after_failed_publish={}", snapshot_before == snapshot_after);
    Ok(())
}

// ---------------- F7: two concurrent publishes ----------------
test_config!(probe_f7_concurrent_publish);
async fn probe_f7_concurrent_publish<TC: Configuration>() -> Result<(), AkdError> {
    let db = YieldDb::new();
    let storage = StorageManager::new_no_cache(db.clone());
    let akd = Directory::<TC, _, _>::new(storage.clone(), HardCodedAkdVRF {}, AzksParallelismConfig::disabled()).await?;
    let e1 = akd.publish(batch("u", 4, "v1")).await?;
    let a = akd.clone();
    let b = akd.clone();
    // a: tiny batch; b: large batch whose preparation (VRFs) outlasts a's whole transaction
    let (ra, rb) = tokio::join!(a.publish(batch("x", 1, "v")), b.publish(batch("y", 300, "v")));
    println!(
        "F7 a={:?} b={:?} final={:?}",
        ra.as_ref().map(|e| e.0).map_err(|e| format!("{e:?}").chars().take(60).collect::<String>()),
        rb.as_ref().map(|e| e.0).map_err(|e| format!("{e:?}").chars().take(60).collect::<String>()),
        akd.get_epoch_hash().await.map(|e| e.0)
    );
    let distinct = match (&ra, &rb) {
        (Ok(x), Ok(y)) => x.0 != y.0,
        _ => true,
    };
    println!("F7 RESULT successful_publishes_have_distinct_epochs={distinct}");
    if let (Ok(x), Ok(y)) = (&ra, &rb) {
        // are a's labels still there?
        let la = akd.lookup(AkdLabel::from("x0")).await;
        let lb = akd.lookup(AkdLabel::from("y0")).await;
        println!("F7 lookup x0 ok={} y0 ok={}", la.is_ok(), lb.is_ok());
        let pk = akd.get_public_key().await?;
        if let Ok((p, eh)) = la {
            println!("F7 x0 verifies={}", lookup_verify::<TC>(pk.as_bytes(), eh.hash(), eh.epoch(), AkdLabel::from("x0"), p).is_ok());
        }
    }
    Ok(())
}

#[derive(Clone)]
struct SlowVrf {
    calls: Arc<AtomicUsize>,
    slow_call: usize,
    yields: usize,
}
#[async_trait::async_trait]
impl VRFKeyStorage for SlowVrf {
    async fn retrieve(&self) -> Result<Vec<u8>, crate::ecvrf::VrfError> {
        let n = self.calls.fetch_add(1, Ordering::SeqCst);
        if n == self.slow_call {
            for _ in 0..self.yields {
                tokio::task::yield_now().await;
            }
        }
        HardCodedAkdVRF {}.retrieve().await
    }
}

test_config!(probe_f7b_concurrent_publish_window);
async fn probe_f7b_concurrent_publish_window<TC: Configuration>() -> Result<(), AkdError> {
    let db = YieldDb::new();
    let storage = StorageManager::new_no_cache(db.clone());
    let vrf = SlowVrf { calls: Arc::new(AtomicUsize::new(0)), slow_call: usize::MAX, yields: 0 };
    let akd = Directory::<TC, _, _>::new(storage.clone(), vrf.clone(), AzksParallelismConfig::disabled()).await?;
    let e1 = akd.publish(batch("u", 4, "v1")).await?;
    let calls_so_far = vrf.calls.load(Ordering::SeqCst);
    // the second publish to ask for the key (b) is held up between reading the epoch and opening the transaction
    let slow = SlowVrf { calls: vrf.calls.clone(), slow_call: calls_so_far + 1, yields: 3000 };
    let akd2 = Directory::<TC, _, _>::new(storage.clone(), slow, AzksParallelismConfig::disabled()).await?;
    let a = akd2.clone();
    let b = akd2.clone();
    let (ra, rb) = tokio::join!(a.publish(batch("x", 2, "v")), b.publish(batch("y", 2, "v")));
    let fin = akd.get_epoch_hash().await;
    println!(
        "F7 a={:?} b={:?} final={:?}",
        ra.as_ref().map(|e| (e.0, hex::encode(&e.1[..4]))).map_err(|e| format!("{e:?}").chars().take(70).collect::<String>()),
        rb.as_ref().map(|e| (e.0, hex::encode(&e.1[..4]))).map_err(|e| format!("{e:?}").chars().take(70).collect::<String>()),
        fin.as_ref().map(|e| (e.0, hex::encode(&e.1[..4])))
    );
    let distinct = match (&ra, &rb) { (Ok(x), Ok(y)) => x.0 != y.0, _ => true };
    println!("F7 RESULT successful_publishes_have_distinct_epochs={distinct}");
    let pk = akd.get_public_key().await?;
    for name in ["x0", "y0", "u0"] {
        match akd.lookup(AkdLabel::from(name)).await {
            Ok((p, eh)) => println!("F7 lookup {name}: epoch {} verifies={}", eh.0, lookup_verify::<TC>(pk.as_bytes(), eh.hash(), eh.epoch(), AkdLabel::from(name), p).is_ok()),
            Err(e) => println!("F7 lookup {name}: error {}", format!("{e:?}").chars().take(80).collect::<String>()),
        }
    }
    Ok(())
}
