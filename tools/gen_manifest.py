#!/usr/bin/env python3
"""Regenerates /verif/MANIFEST.json from the table below (claimed checks) and
properties.jsonl (everything else goes to not_applicable with a reason)."""
import json, os
V = os.path.dirname(os.path.dirname(os.path.abspath(__file__)))
NOTE = ("trusts rustc's MIR construction and trait resolution, the akd-lint extractor, analysis/mir.py and the obligation table in "
        "rules/%s.py; must-pass-through is decided on the CFG path-insensitively (variant facts of freshly built Result/Option values "
        "excepted); decides the named structural clauses only, not the behavioural remainder listed in DESIGN.md §4")
CLAIMED = {
 'C05': ("Static rule checking on type-checked MIR: every rejecting guard of the membership / non-membership verifiers (label != children, prefix, LCP, anchor hash, anchor membership, deepest-anchor) exists with the listed operands and lies on every path to Ok; every proof field reaches a guard. Decides that no check is omitted (a necessary condition of soundness), not completeness of generation or collision resistance.",
         "static analysis: MIR guard extraction + must-pass-through dominance (RF-GUARD, RF-BIND, RF-COVER)"),
 'C06': ("Static rule checking: lookup_verify's version<=epoch guard and its three sub-proof checks are called with exactly the protocol's (freshness, version, VRF proof, tree proof) tuples, on every path to Ok, Results propagated; returned fields are the checked fields; every LookupProof field reaches a check; verifier primitives bind the VRF label to the tree proof's own label. Necessary conditions of the property; protocol soundness itself is not decided.",
         "static analysis: MIR argument-binding and must-pass-through rules (RF-GUARD, RF-BIND, RF-COVER, RF-UNIT)"),
 'C07': ("Static rule checking of the obligation tables of verify_with_history_params / key_history_verify / verify_single_update_proof: shape guards (non-empty, consecutive versions, start/end bounds, Complete / MostRecent arms, four length equalities), per-iteration sub-proof checks over the full marker lists, same-epoch retirement of the previous version, tombstone opt-in. Decides that no listed check is omitted or weakened.",
         "static analysis: MIR guard/binding tables with per-iteration loop rules (RF-GUARD, RF-BIND, RF-ORDER, RF-COVER)"),
 'C18': ("Static rule checking of the structure of the label binding: VRF input hash and commitment formulas depend on all their inputs in both configurations (dataflow), prover and verifier share one encoding function and one truncation, verify_label's parse/verify/compare obligations hold and its callers pass the tree proof's own label. Nothing cryptographic is decided.",
         "static analysis: MIR dataflow completeness + sibling agreement (RF-FLOW, RF-SIB, RF-BIND, RF-GUARD)"),
 'C09': ("Static rule checking of the auditor's obligation table: both length guards, per-pair verification with proofs[i], hashes[i], hashes[i+1], epochs[i]+1, start tree = unchanged nodes, end tree = unchanged ∪ inserted hashed with the end epoch, both root comparisons rejecting, and prefix-free validation of the node set before the end tree is built. Decides that no listed check is omitted; the implication to append-only-ness rests on collision resistance and is not decided.",
         "static analysis: MIR guard/binding tables, dominance of the validation over the tree build (RF-GUARD, RF-BIND, RF-COVER)"),
 'C11': ("Static rule checking of the mechanism that hides a half-written commit: the epoch record's priority constant is strictly greatest in an explicit arm, the commit log is sorted by exactly that key and not touched before the database write, the last-record guard precedes the write, the in-memory database applies in vector order; node records are fetched only through the as-of-epoch selectors, latest/previous node fields are read nowhere else, every node returned by the selector was compared last_epoch <= target_epoch, and write_to_storage keeps the previous version as of last_epoch-1. Crash-point behaviour itself is not executed.",
         "static analysis: constant/ordering facts, who-may-call and field-ownership rules on MIR (RF-GUARD, RF-ORDER, RF-EFFECT, RF-OWN, RF-BIND)"),
 'C15': ("Static rule checking of the transaction layer: epoch/version dimension analysis of the merge of database and pending records, every read API consults the transaction log (keyed reads before cache and database), begin is one atomic swap, commit/rollback refuse when inactive and clear the log before lowering the flag, commit returns the whole log sorted by transaction priority, retrieval-flag handling has an explicit arm per variant. Equality of query results over all operation sequences is not decided.",
         "static analysis: units-of-measure dataflow (epoch vs version) + sibling/ordering rules on MIR (RF-UNIT, RF-SIB, RF-ORDER, RF-BIND)"),
 'C16': ("Static rule checking of cache discipline: cache fills of written records are dominated by the success edge of the database write, every database-writing API caches the same records and nothing else writes the database, read paths cache exactly the database result after consulting the transaction log, flush clears every record-holding field, cache/manager/transaction state is module-private, cleaning only removes entries. Timing-dependent behaviour and concurrent tasks are not decided.",
         "static analysis: dominance (RF-ORDER), sibling agreement, effect sets and field visibility on MIR/ADT facts (RF-SIB, RF-EFFECT, RF-OWN, RF-COVER)"),
 'C10': ("Static rule checking of the failure-atomicity mechanism of publish: the transaction bracket (every exit after a successful begin passes commit or rollback; the in-transaction `?` discharged by a checked summary of StorageManager::batch_set), all storage writes inside the bracket, cache filled only after the database write succeeded, every spawned writer task joined on every exit, and no discarded storage/VRF Result on the publish path. Behaviour under partial database writes is not decided.",
         "static analysis: bracket / dominance / fork-join rules on the MIR CFG, call-graph effects, error-use dataflow (RF-ORDER, RF-JOIN, RF-EFFECT, RF-ERR)"),
 'C12': ("Static rule checking of the lock discipline: an exclusion region (named Mutex/RwLock-write guard shared by clones, or the transaction flag) is acquired before the epoch-record and user-version reads of publish and is not released before the durable write; the flag is one atomic swap whose result is branched on; the transaction bracket is closed on every exit. Serializability of all interleavings is not decided.",
         "static analysis: lock-region dominance and guard-liveness on the MIR CFG (RF-ORDER, RF-BIND)"),
 'C13': ("Static rule checking: each read request fetches the epoch record exactly once along every call-graph path and generates all proofs and the returned EpochHash from that snapshot; as-of-epoch node selection is checked; the change poller flushes and re-fetches under the write lock before notifying and compares an uncached read; flush clears all record-holding state; request paths reach no storage write and drop no Result; the read-only wrapper forwards unchanged. Real interleavings are not executed.",
         "static analysis: call-graph snapshot provenance, dominance chains, effect sets (RF-SNAP, RF-ORDER, RF-EFFECT, RF-ERR, RF-SIB)"),
 'C19': ("Static rule checking of the protobuf conversion layer: encoder/decoder field agreement for all ten converted types (every core field written to and read back from the same protobuf field), presence guards before every scalar accessor and message-field unwrap, label/digest/direction/two-children guards, and a complete enumeration of potential panic sites (unwrap/expect, panics, slice indexing, length-sensitive copies) reachable from the decode entry points inside workspace code, each discharged by a dominating guard of a known form. Round-trip equality of values and third-party parser behaviour are not decided.",
         "static analysis: sibling field-map agreement, guard dominance, panic-site enumeration over the call graph with interval-free length reasoning (RF-SIB, RF-GUARD, RF-PANIC)"),
}
NA = {
 'C08': "the property is arithmetic over runtime values (two marker-version sets computed by bit manipulation always intersect); no shape-of-the-code rule decides it, and the structural part (verifiers enforce the full marker lists) is already decided under C06/C07",
 'C17': "bit-level semantics of shifts, masks and indices over all labels of 0..256 bits; no necessary condition in reach is structural",
}
def main():
    props = [json.loads(l) for l in open(os.path.join(V, 'properties.jsonl'))]
    checks = []
    for p in props:
        pid = p['id']
        if pid in CLAIMED and os.path.exists(os.path.join(V, 'rules', pid.lower() + '.py')):
            text, tech = CLAIMED[pid]
            checks.append({"property_id": pid, "quick_cmd": "./check %s --tier quick" % pid,
                           "thorough_cmd": "./check %s --tier thorough" % pid,
                           "evidence_file": "/verif/evidence/%s.json" % pid, "replay_cmd_template": "./check --replay {path}",
                           "engine": "akd-lint+analysis",
                           "level_claimed": {"category": "other", "text": text, "design_ref": "DESIGN.md §4 " + pid},
                           "level_note": NOTE % pid.lower(), "technique": tech})
    claimed = {c['property_id'] for c in checks}
    na = [{"property_id": p['id'], "reason": NA.get(p['id'], "static rules designed (DESIGN.md §4) but the check is not built yet in this round; not claimed until it runs")}
          for p in props if p['id'] not in claimed]
    m = {"version": 1, "setup_cmd": "cd /verif && ./setup.sh",
         "hooks": {"guard": "akd_verif", "enable": "none needed: the extractor reads MIR of the unmodified build (RUSTC_WORKSPACE_WRAPPER under cargo +nightly check)",
                   "baseline_off_cmd": "cd /repo && cargo test --workspace --no-fail-fast --offline", "source_commits": [], "add_only": True},
         "engines": [{"name": "akd-lint", "path": "/verif/akd-lint", "serves_properties": sorted(claimed), "kind_free_text": "rustc_private driver (nightly): dumps mir_built bodies, ADTs, impls as JSON facts"},
                     {"name": "analysis", "path": "/verif/analysis", "serves_properties": sorted(claimed), "kind_free_text": "CFG / dominance / reaching definitions / expression reconstruction / guard extraction over the facts; rule tables in /verif/rules"},
                     {"name": "selftest", "path": "/verif/selftest", "serves_properties": sorted(claimed), "kind_free_text": "seeded variants applied to scratch copies: every rule instance class must fire (thorough tier)"}],
         "checks": checks, "not_applicable": na,
         "notes": "fix: commits in /repo are listed in /verif/known_findings.json (fixed entries suppress nothing)."}
    json.dump(m, open(os.path.join(V, 'MANIFEST.json'), 'w'), indent=1)
    print('claimed', sorted(claimed))
main()
