#!/usr/bin/env python3
"""Freeze the parameter names of every workspace function as they are on the
tree the rule tables were written against -> rules/param_names.json.
analysis/mir.py maps a renamed parameter back to its frozen name by position,
so that renaming a parameter is not reported.  Re-run only when the rule
tables are revised against a new reference tree."""
import json, os, sys
V = os.path.dirname(os.path.dirname(os.path.abspath(__file__)))
sys.path.insert(0, V)
from analysis import extract
out = {}
sigs = {}
for cfg in sys.argv[1:] or ['D', 'W']:
    files, info = extract.facts_for(cfg)
    for f in files:
        d = json.load(open(f))
        if d.get('test'):
            continue
        for b in d['bodies']:
            if b['kind'] != 'fn' or not b['argc']:
                continue
            names = [None] * b['argc']
            for e in b['debug']:
                if e.get('arg') is not None and e.get('p') and len(e['p']) == 1 and 1 <= e['arg'] <= b['argc']:
                    names[e['arg'] - 1] = e['n']
            if all(names):
                out.setdefault(b['path'], names)
for cfg in sys.argv[1:] or ['D', 'W']:
    files, info = extract.facts_for(cfg)
    for f in files:
        d = json.load(open(f))
        if d.get('test'):
            continue
        for b in d['bodies']:
            if b['kind'] == 'fn' and '<' not in b['path'] and '::tests' not in b['path']:
                sigs.setdefault(b['path'], [l['ty'] for l in b['locals'][:b['argc'] + 1]])
json.dump(sigs, open(os.path.join(V, 'rules', 'fn_sigs.json'), 'w'), indent=0, sort_keys=True)
json.dump(out, open(os.path.join(V, 'rules', 'param_names.json'), 'w'), indent=0, sort_keys=True)
print('%d functions' % len(out))
