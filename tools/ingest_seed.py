#!/usr/bin/env python3
"""Ingest one seeded change produced by a sub-agent:
  1. confirm it in a scratch worktree of /repo HEAD (tools/confirm_seed.py): with patch + demo the
     workspace builds, every baseline test passes and the demo fails; with the demo only, the demo passes;
  2. run every claimed property's quick check against a scratch copy of /repo with the patch applied
     (never /repo itself) and record which obligations report it;
  3. write /verif/seeded/<id>/{patch.diff, demo.diff, notes.md, meta.json}.
usage: ingest_seed.py <seed-id> <property> <src dir with patch.diff demo.diff [notes.md]> [--worker N] [--no-confirm]"""
import json, os, shutil, subprocess, sys, tempfile, time
V = os.path.dirname(os.path.dirname(os.path.abspath(__file__)))
sys.path.insert(0, V)
sid, prop, src = sys.argv[1], sys.argv[2], os.path.abspath(sys.argv[3])
worker = sys.argv[sys.argv.index('--worker') + 1] if '--worker' in sys.argv else '0'
os.makedirs('/tmp/seed/confirm', exist_ok=True)
meta = {'id': sid, 'property': prop, 'source': src}
conf = None
if '--no-confirm' not in sys.argv:
    p = subprocess.run([sys.executable, os.path.join(V, 'tools', 'confirm_seed.py'), sid, src, worker],
                       stdout=subprocess.PIPE, stderr=subprocess.STDOUT, text=True)
    try:
        conf = json.loads(p.stdout.strip().splitlines()[-1])
    except Exception:
        conf = {'confirmed': False, 'why': 'confirm_seed crashed: ' + p.stdout[-400:]}
    meta['confirm'] = conf
    print('confirm:', conf.get('confirmed'), conf.get('why'))
    if not conf.get('confirmed'):
        json.dump(meta, open('/tmp/seed/confirm/%s.meta.json' % sid, 'w'), indent=1)
        sys.exit(1)
# 2. checks on a scratch copy
from selftest.run import copy_repo
from analysis import runner, extract
manifest = json.load(open(os.path.join(V, 'MANIFEST.json')))
props = [c['property_id'] for c in manifest['checks']]
base = tempfile.mkdtemp(prefix='akd-seed-')
root = os.path.join(base, 'repo')
det = {}
try:
    copy_repo(root)
    pr = subprocess.run('patch -p1 --no-backup-if-mismatch < %s/patch.diff' % src, shell=True, cwd=root,
                        stdout=subprocess.PIPE, stderr=subprocess.STDOUT, text=True)
    if pr.returncode:
        print('PATCH FAILED', pr.stdout[-500:]); sys.exit(2)
    tdirs = {c: os.path.join(V, '.target', 'S%s-%s' % (worker, c)) for c in ('D', 'W', 'A', 'X')}
    for pid in props:
        try:
            ctx, viol, known = runner.run_property(pid, 'quick', repo=root, emit=False, target_dirs=tdirs)
        except extract.ExtractError as e:
            det[pid] = ['BUILD ERROR ' + str(e)[-300:]]
            continue
        if viol:
            det[pid] = ['%s @ %s: %s' % (o['id'], o['where'], o['detail'][:200]) for o in viol]
finally:
    shutil.rmtree(base, ignore_errors=True)
    import glob, hashlib
    tag = hashlib.sha256(os.path.abspath(root).encode()).hexdigest()[:6]
    for d in glob.glob(os.path.join(extract.FACTS, '*-%s-*' % tag)):
        shutil.rmtree(d, ignore_errors=True)
meta['detected_by'] = det
meta['status'] = 'caught' if det.get(prop) else ('caught-by-other' if det else 'missed')
notes = open(os.path.join(src, 'notes.md')).read() if os.path.exists(os.path.join(src, 'notes.md')) else ''
meta['needs_to_manifest'] = ''
meta['summary'] = ''
meta['what_was_run'] = {
    'confirm': 'tools/confirm_seed.py in a scratch worktree of /repo HEAD: (1) patch.diff + demo.diff applied, '
               '`cargo test --workspace --offline --no-fail-fast`: all baseline tests pass, demo test(s) fail; '
               '(2) demo.diff only: demo test(s) pass',
    'checks': 'every claimed property, `./check <id> --tier quick` logic on a scratch copy of /repo with patch.diff applied',
    'at': time.strftime('%Y-%m-%dT%H:%M:%SZ', time.gmtime()),
}
dst = os.path.join(V, 'seeded', sid)
os.makedirs(dst, exist_ok=True)
# keep the outcome of the very first triage run (before any check was strengthened) and hand-written annotations
prev = {}
if os.path.exists(os.path.join(dst, 'meta.json')):
    prev = json.load(open(os.path.join(dst, 'meta.json')))
meta['first_run'] = prev.get('first_run') or {'status': meta['status'], 'detected_by': det}
if conf is None and prev.get('confirm'):
    meta['confirm'] = prev['confirm']
ann_file = os.path.join(V, 'seeded', 'ANNOTATIONS.json')
if os.path.exists(ann_file):
    ann = json.load(open(ann_file)).get(sid, {})
    for k in ('summary', 'needs_to_manifest'):
        if ann.get(k):
            meta[k] = ann[k]
    if ann.get('first_run'):
        meta['first_run'] = {'status': ann['first_run'], 'note': ann.get('first_run_note', '')}
for f in ('patch.diff', 'demo.diff', 'notes.md'):
    if os.path.exists(os.path.join(src, f)) and os.path.abspath(src) != os.path.abspath(dst):
        shutil.copy(os.path.join(src, f), os.path.join(dst, f))
json.dump(meta, open(os.path.join(dst, 'meta.json'), 'w'), indent=1)
shutil.rmtree(os.path.join(V, 'seeded', '_pending', sid), ignore_errors=True)
print(sid, meta['status'])
for k, v in det.items():
    for x in v[:6]:
        print('   ', k, x)
