#!/usr/bin/env python3
"""Markdown table of /verif/seeded/*/meta.json for DESIGN.md §9 (stdout)."""
import glob, json, os
V = os.path.dirname(os.path.dirname(os.path.abspath(__file__)))
rows = []
ANN = json.load(open(os.path.join(V, 'seeded', 'ANNOTATIONS.json'))) if os.path.exists(os.path.join(V, 'seeded', 'ANNOTATIONS.json')) else {}
for f in sorted(glob.glob(os.path.join(V, 'seeded', '*', 'meta.json'))):
    m = json.load(open(f))
    a = ANN.get(m['id'], {})
    m.setdefault('summary', ''); m.setdefault('needs_to_manifest', '')
    m['summary'] = a.get('summary') or m['summary']
    m['needs_to_manifest'] = a.get('needs_to_manifest') or m['needs_to_manifest']
    if a.get('first_run'):
        m['first_run'] = {'status': a['first_run']}
    det = m.get('detected_by', {})
    own = det.get(m['property'], [])
    ids = sorted({x.split(' @ ')[0] for v in det.values() for x in v})
    first = m.get('first_run', {}).get('status', m.get('status'))
    rows.append((m['id'], m['property'], m.get('summary', '').replace('|', '/'), m.get('needs_to_manifest', '').replace('|', '/'),
                 first, m.get('status'), ', '.join('`%s`' % i for i in ids[:4]) + (' …' if len(ids) > 4 else '')))
print('| seed | property | change | needs, to manifest | first run | now | reported as |')
print('|------|----------|--------|--------------------|-----------|-----|-------------|')
for r in rows:
    print('| %s |' % ' | '.join(r))
n = len(rows)
print()
print('%d seeded changes. First triage run (before any strengthening): %d reported by the property\'s own check, %d only by another '
      'property\'s check, %d missed. Now: %d reported by the own check, %d only by another, %d missed.' % (
          n, sum(1 for r in rows if r[4] == 'caught'), sum(1 for r in rows if r[4] == 'caught-by-other'), sum(1 for r in rows if r[4] == 'missed'),
          sum(1 for r in rows if r[5] == 'caught'), sum(1 for r in rows if r[5] == 'caught-by-other'), sum(1 for r in rows if r[5] == 'missed')))
