#!/bin/bash
# usage: ingest_q.sh <worker> <round> <Cxx:variant>...   (waits for the worker's running ingest, skips ingested seeds)
w=$1; r=$2; shift; shift
while pgrep -f "ingest_seed.py .* --worker $w\$" > /dev/null; do sleep 20; done
for sv in "$@"; do
  p=${sv%%:*}; v=${sv##*:}
  [ -f /verif/seeded/${p}-${r}-${v}/meta.json ] && continue
  python3 /verif/tools/ingest_seed.py ${p}-${r}-${v} $p /tmp/seed/${p}-${r}/out/${v} --worker $w > /tmp/seed/confirm/ingest-${p}-${r}-${v}.out 2>&1
done
