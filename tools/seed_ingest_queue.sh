#!/bin/bash
# usage: ingest_r1.sh <worker> <list of Cxx:variant>
w=$1; shift
for sv in "$@"; do
  p=${sv%%:*}; v=${sv##*:}
  python3 /verif/tools/ingest_seed.py ${p}-r1-${v} $p /tmp/seed/${p}-r1/out/${v} --worker $w > /tmp/seed/confirm/ingest-${p}-r1-${v}.out 2>&1
done
