#!/usr/bin/env python3
"""Re-run every claimed property's quick check against each kept seeded change (scratch copy of /repo + patch.diff)
and update seeded/<id>/meta.json (status, detected_by); the first-run outcome is preserved.
usage: recheck_seeds.py [--jobs N] [ids...]"""
import concurrent.futures as cf, glob, json, os, queue, subprocess, sys
V = os.path.dirname(os.path.dirname(os.path.abspath(__file__)))
args = sys.argv[1:]
jobs = 3
if '--jobs' in args:
    i = args.index('--jobs'); jobs = int(args[i + 1]); del args[i:i + 2]
ids = args or sorted(os.path.basename(os.path.dirname(f)) for f in glob.glob(os.path.join(V, 'seeded', '*', 'meta.json')))
WQ = queue.Queue()
def one(a):
    sid, _ = a
    w = WQ.get()
    try:
        return _one(sid, w)
    finally:
        WQ.put(w)


def _one(sid, w):
    d = os.path.join(V, 'seeded', sid)
    m = json.load(open(os.path.join(d, 'meta.json')))
    p = subprocess.run([sys.executable, os.path.join(V, 'tools', 'ingest_seed.py'), sid, m['property'], d, '--no-confirm', '--worker', 'R%d' % w],
                       stdout=subprocess.PIPE, stderr=subprocess.STDOUT, text=True)
    return sid, p.stdout.strip().splitlines()[-8:]
for k in range(jobs):
    WQ.put(k)
with cf.ThreadPoolExecutor(max_workers=jobs) as ex:
    # static assignment of a worker index per thread is not needed: ingest uses the index only for its target dir
    futs = [ex.submit(one, (sid, i % jobs)) for i, sid in enumerate(ids)]
    for f in futs:
        sid, out = f.result()
        print('==', sid); print('\n'.join(out))
