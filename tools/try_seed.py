#!/usr/bin/env python3
"""Run checks against a scratch copy of /repo with a patch applied (triage of
seeded changes without touching /repo). usage: try_seed.py <patch.diff> <Cxx> [Cyy...]"""
import os, sys, shutil, subprocess, tempfile
V = os.path.dirname(os.path.dirname(os.path.abspath(__file__)))
sys.path.insert(0, V)
from selftest.run import copy_repo
from analysis import runner, extract
patch = os.path.abspath(sys.argv[1])
base = tempfile.mkdtemp(prefix='akd-tryseed-')
root = os.path.join(base, 'repo')
try:
    copy_repo(root)
    p = subprocess.run('patch -p1 --no-backup-if-mismatch < %s' % patch, shell=True, cwd=root, stdout=subprocess.PIPE, stderr=subprocess.STDOUT, text=True)
    if p.returncode:
        print('PATCH FAILED', p.stdout[-800:]); sys.exit(2)
    tdirs = {c: os.path.join(V, '.target', 'T-%s' % c) for c in ('D', 'W', 'A', 'X')}
    for pid in sys.argv[2:]:
        try:
            ctx, viol, known = runner.run_property(pid, 'quick', repo=root, emit=False, target_dirs=tdirs)
        except extract.ExtractError as e:
            print(pid, 'BUILD ERROR', str(e)[-500:]); continue
        print(pid, 'violations=%d' % len(viol))
        for o in viol:
            print('   ', o['id'], o['where'], o['detail'][:200])
finally:
    shutil.rmtree(base, ignore_errors=True)
    import glob, hashlib
    tag = hashlib.sha256(os.path.abspath(root).encode()).hexdigest()[:6]
    for d in glob.glob(os.path.join(extract.FACTS, '*-%s-*' % tag)):
        shutil.rmtree(d, ignore_errors=True)
