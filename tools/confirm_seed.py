#!/usr/bin/env python3
"""Confirm a seeded change in a scratch worktree of /repo HEAD:
   (1) patch + demo applied: workspace builds, every baseline test passes, the demo test(s) fail;
   (2) demo only: the demo test(s) pass.
usage: confirm_seed.py <seed-id> <dir with patch.diff demo.diff> <worker>"""
import json, os, re, subprocess, sys, shutil
sid, src, worker = sys.argv[1], sys.argv[2], sys.argv[3]
wt = '/tmp/seed/confirm/wt-%s' % sid
tgt = '/tmp/seed/confirm/target-%s' % worker
log = open('/tmp/seed/confirm/%s.log' % sid, 'w')
res = {'id': sid, 'src': src}
base = set(json.load(open('/root/.vp/BASELINE.json'))['stable_pass'])
def sh(cmd, cwd=None, **kw):
    log.write('$ %s\n' % cmd); log.flush()
    p = subprocess.run(cmd, shell=True, cwd=cwd, stdout=subprocess.PIPE, stderr=subprocess.STDOUT, text=True, **kw)
    log.write(p.stdout[-20000:] + '\n'); log.flush()
    return p
def finish(ok, why):
    res['confirmed'] = ok; res['why'] = why
    json.dump(res, open('/tmp/seed/confirm/%s.json' % sid, 'w'), indent=1)
    sh('git -C /repo worktree remove --force %s' % wt)
    print(json.dumps(res)); sys.exit(0 if ok else 1)
def parse(out):
    """cargo test output -> (passed names, failed names) with crate-ish prefixes dropped"""
    ok, bad = set(), set()
    for m in re.finditer(r'^test (\S+) \.\.\. (ok|FAILED|ignored)', out, re.M):
        (ok if m.group(2) == 'ok' else bad if m.group(2) == 'FAILED' else set()).add(m.group(1))
    return ok, bad
if os.path.exists(wt):
    sh('git -C /repo worktree remove --force %s' % wt)
p = sh('git -C /repo worktree add --detach %s HEAD' % wt)
if p.returncode: finish(False, 'worktree add failed')
env = 'CARGO_TARGET_DIR=%s CARGO_NET_OFFLINE=true' % tgt
for f, how in (('demo.diff', 'demo'), ('patch.diff', 'patch')):
    p = sh('git apply --3way %s/%s || git apply %s/%s || patch -p1 --no-backup-if-mismatch < %s/%s' % (src, f, src, f, src, f), cwd=wt)
    if p.returncode: finish(False, '%s does not apply on HEAD' % f)
sh('git diff --stat', cwd=wt)
p = sh('%s cargo test --workspace --offline --no-fail-fast 2>&1' % env, cwd=wt, timeout=5400)
ok1, bad1 = parse(p.stdout)
res['with_patch'] = {'passed': len(ok1), 'failed': sorted(bad1)}
if 'error: could not compile' in p.stdout or 'error[E' in p.stdout:
    finish(False, 'does not compile with patch')
newfail = {t for t in bad1 if 'test_output_vectors' not in t}
# baseline names are crate-qualified (akd::a::b); cargo prints a::b: compare by suffix
def in_base(t):
    return any(b.endswith('::' + t) or b == t for b in base)
broken_existing = sorted(t for t in newfail if in_base(t))
demo_fail = sorted(t for t in newfail if not in_base(t))
res['demo_tests_failing_with_patch'] = demo_fail
if broken_existing:
    # timing-based tests (10 ms cache lifetime) flake on a loaded machine: re-run each failing baseline test alone,
    # twice; only a test that keeps failing counts against the seed
    still_broken = []
    for t in broken_existing:
        nm = t.split('::')[-1]
        okc = False
        for _ in range(2):
            q = sh('%s cargo test --workspace --offline -- %s 2>&1' % (env, nm), cwd=wt, timeout=3600)
            o2, b2 = parse(q.stdout)
            if t in o2 and t not in b2:
                okc = True
                break
        if not okc:
            still_broken.append(t)
    res['flaky_reruns'] = [t for t in broken_existing if t not in still_broken]
    broken_existing = still_broken
if broken_existing: finish(False, 'existing tests fail with the patch: %s' % broken_existing)
if not demo_fail: finish(False, 'no demo test fails with the patch')
if len(ok1) < 150: finish(False, 'suite incomplete (%d passed)' % len(ok1))
# (2) revert the library patch, keep the demo
sh('git apply -R %s/patch.diff || patch -R -p1 --no-backup-if-mismatch < %s/patch.diff' % (src, src), cwd=wt)
names = ' '.join(sorted({t.split('::')[-1] for t in demo_fail}))
p = sh('%s cargo test --workspace --offline --no-fail-fast -- %s 2>&1' % (env, names), cwd=wt, timeout=3600)
ok2, bad2 = parse(p.stdout)
res['without_patch'] = {'passed': sorted(ok2), 'failed': sorted(bad2)}
still = [t for t in demo_fail if t in bad2 or t not in ok2]
if still: finish(False, 'demo does not pass without the patch: %s' % still)
finish(True, 'demo fails with patch (%s), passes without; %d existing tests pass with patch' % (demo_fail, len(ok1)))
