#!/usr/bin/env python3
"""mk.py <Cxx> <tag>: create worktree + PROMPT.md for a seeding sub-agent"""
import json, os, subprocess, sys
pid, tag = sys.argv[1], sys.argv[2]
hint = sys.argv[3] if len(sys.argv) > 3 else ''
props = {json.loads(l)['id']: json.loads(l) for l in open('/verif/properties.jsonl')}
p = props[pid]
d = '/tmp/seed/%s-%s' % (pid, tag)
os.makedirs(d + '/out', exist_ok=True)
if not os.path.exists(d + '/wt'):
    subprocess.check_call(['git', '-C', '/repo', 'worktree', 'add', '--detach', d + '/wt', 'HEAD'])
txt = f"""# Task: seed a realistic property-breaking change into facebook/akd

You are working in a scratch git worktree of the Rust repository facebook/akd (an auditable key directory) at
`{d}/wt`. Work ONLY inside `{d}` . Do NOT read, list or modify anything under `/verif` or `/repo`
(your worktree is a full checkout; you need nothing else). Use `CARGO_TARGET_DIR={d}/target` and
`--offline` for every cargo command (there is no network). Limit build parallelism with `-j 4`.

## The property (this is all you are given)

**{p['id']} — {p['title']}**

Statement: {p['statement']}

Quantified over: {p['quantifier']['text']}

Why the existing tests cannot settle it: {p['why_tests_cant']}

Code anchors: {json.dumps(p['anchors'], indent=1)}

## What to produce

Produce TWO *different* changes (variants `a` and `b`, different mechanisms / different code sites) to the library
code of facebook/akd (crates `akd_core` and/or `akd`, non-test code) such that for each one:

1. the workspace still compiles (`cargo build --workspace --offline`), with no new warnings-as-errors problems;
2. every existing test still passes: at minimum `cargo test -p akd_core -p akd --offline -j 4` (run it!), and nothing
   in `examples` should be affected in an obvious way;
3. the change BREAKS the property above — for some input, history, schedule, fault point or crafted proof the stated
   behaviour no longer holds;
4. the change looks like something a real contributor could plausibly write (a refactoring slip, an
   "optimisation", a reordered statement, a dropped or weakened check, a wrong field/variable of the same type,
   an off-by-one in a comparison, an early return, a lock released too soon, an error swallowed, ...). It must be
   small (typically 1–15 changed lines) and it must NOT be exposed by ordinary use: it should need something
   specific to manifest — a particular interleaving, a crash or storage fault at a particular point, a multi-step
   sequence of operations, an unusual input, an adversarially assembled proof, or two cooperating sites that each
   look fine alone. Do not add obviously malicious code, dead flags, or comments pointing at the change.
   {hint}
5. you provide a DEMONSTRATION: one or more new `#[test]` / `#[tokio::test]` functions (put them in a NEW file, e.g.
   `akd/src/tests/seed_demo_{pid.lower()}_<variant>.rs` registered with one `mod` line in `akd/src/tests/mod.rs`, or
   a new test module inside akd_core) that FAIL with the change applied and PASS on the unmodified code. The demo
   may use test-only helper code (fault-injecting or delaying `Database` wrappers, hand-assembled proofs, etc.)
   inside the test file. Test names must start with `seed_demo_`. The demo must be deterministic.

## Deliverables (write them yourself, verify them yourself)

For each variant v in {{a, b}} write into `{d}/out/<v>/`:
* `patch.diff`  — `git diff` of ONLY the library change (no test files), applying with `git apply` on the worktree's HEAD;
* `demo.diff`   — `git diff` (include new files: use `git add -N` first) of ONLY the demonstration test(s);
* `notes.md`    — 5–15 lines: what the change is, which clause of the property it breaks, what exactly is needed for
  it to manifest, and the commands you ran with their observed results (demo fails with patch / passes without;
  existing akd + akd_core tests pass with patch).

Before finishing, for each variant verify from a clean worktree state (`git checkout -- . && git clean -fd` inside
the worktree, then `git apply` the two diffs) that: with patch+demo the demo test fails and the rest of the akd/akd_core
tests pass; with demo only, the demo test passes. Leave the worktree clean (`git checkout -- . && git clean -fd`) when done.
If you cannot find a second good variant, deliver one and say so. Your final message: a short summary per variant.
"""
open(d + '/PROMPT.md', 'w').write(txt)
print(d)
