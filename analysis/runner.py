"""check runner: extraction, rule evaluation, evidence, known findings."""
import importlib
import json
import os
import sys
import time
import traceback

from analysis import extract
from analysis.mir import Program, AnchorError

VERIF = extract.VERIF
EVID = os.path.join(VERIF, 'evidence')
KNOWN = os.path.join(VERIF, 'known_findings.json')

ASSUMPTIONS = [
    "rustc nightly front end, type checker and MIR construction (mir_built) are trusted",
    "rule tables under /verif/rules encode which structural clause is necessary for the property (one reason per entry)",
    "only the compiled cfg configurations are analysed (quick: D = default features + whatsapp_v1)",
    "external crates (tokio, dashmap, protobuf, blake3, dalek) and generated protobuf code are opaque calls",
    "path rules are path-insensitive except for variant facts of Result/Option/ControlFlow values built on the path",
    "panics (unwind edges) and cancellation of a dropped future are outside every ordering rule",
]
TRUSTED = ["rustc 1.97.0-nightly (type check, MIR build, trait resolution)", "akd-lint extractor", "analysis/mir.py",
           "rule tables /verif/rules/*.py"]


class Ctx:
    def __init__(self, pid, tier, progs, infos, repo='/repo'):
        self.pid = pid
        self.tier = tier
        self.progs = progs
        self.prog = progs['D']
        self.infos = infos
        self.repo = repo
        self.obs = []
        self.notes = []
        self.counters = {}

    # one obligation = one rule instance decided on the current tree
    def ob(self, oid, rule, ok, fn=None, where=None, detail='', key=None, nontrivial=True):
        self.obs.append({'id': oid, 'rule': rule, 'ok': bool(ok), 'fn': fn, 'where': where, 'detail': detail,
                         'key': key or ('%s|%s|%s' % (rule, oid, fn or '')), 'nontrivial': nontrivial})
        return bool(ok)

    def count(self, name, n=1):
        self.counters[name] = self.counters.get(name, 0) + n

    def guarded(self, oid, rule, fn, thunk):
        """evaluate thunk() -> list of (ok, where, detail[, key_suffix]); a
        missing anchor is a violation (fail closed)."""
        try:
            return thunk()
        except AnchorError as e:
            self.ob(oid, rule, False, fn, None, 'anchor missing: %s' % e, key='%s|%s|anchor' % (rule, oid))
            return None


def load_known():
    if not os.path.exists(KNOWN):
        return {'findings': [], 'fixed': []}
    return json.load(open(KNOWN))


def run_property(pid, tier='quick', repo='/repo', configs=None, emit=True, target_dirs=None):
    t0 = time.time()
    seed = int(os.environ.get('VERIF_SEED', '0') or 0)
    mod = importlib.import_module('rules.' + pid.lower())
    want = configs or (mod.CONFIGS.get(tier) if hasattr(mod, 'CONFIGS') else None) or (['D'] if tier == 'quick' else ['D', 'W'])
    progs, infos = {}, {}
    for c in want:
        files, info = extract.facts_for(c, repo=repo, target_dir=(target_dirs or {}).get(c))
        progs[c] = Program(files)
        infos[c] = info
    ctx = Ctx(pid, tier, progs, infos, repo)
    try:
        mod.run(ctx)
    except AnchorError as e:
        ctx.ob(pid + '.anchor', 'ANCHOR', False, None, None, 'anchor missing: %s' % e)
    except Exception as e:  # analysis bug: fail closed, but say so
        ctx.ob(pid + '.internal', 'INTERNAL', False, None, None,
               'analysis error: %s\n%s' % (e, traceback.format_exc()[-1500:]))
    floor = getattr(mod, 'FLOOR', 1)
    n = len(ctx.obs)
    # thorough tier: the same rule table evaluated on the other compiled configurations
    # (the other body of every cfg twin), unless the module handles configurations itself
    if tier == 'thorough' and not hasattr(mod, 'CONFIGS'):
        for c in want:
            if c == 'D':
                continue
            sub = Ctx(pid, tier, dict(progs, D=progs[c]), infos, repo)
            try:
                mod.run(sub)
            except AnchorError as e:
                sub.ob(pid + '.anchor', 'ANCHOR', False, None, None, 'anchor missing: %s' % e)
            except Exception as e:
                sub.ob(pid + '.internal', 'INTERNAL', False, None, None, 'analysis error: %s\n%s' % (e, traceback.format_exc()[-1500:]))
            skip = set(getattr(mod, 'CONFIG_SPECIFIC', {}).get(c, ()))
            for o in sub.obs:
                if any(o['id'].startswith(x) for x in skip):
                    continue
                o = dict(o)
                o['id'] = '[%s]%s' % (c, o['id'])
                o['key'] = '[%s]%s' % (c, o['key'])
                ctx.obs.append(o)
            if len(sub.obs) < floor:
                ctx.ob('%s.floor[%s]' % (pid, c), 'FLOOR', False, None, None,
                       'config %s: only %d rule instances evaluated, floor is %d' % (c, len(sub.obs), floor))
    if n < floor:
        ctx.ob(pid + '.floor', 'FLOOR', False, None, None,
               'only %d rule instances evaluated, floor is %d (a rule matched nothing)' % (n, floor))
    known = load_known()
    kf = {(k['property'], k['key']): k for k in known.get('findings', [])}
    violations, known_hits = [], []
    for o in ctx.obs:
        if not o['ok']:
            k = kf.get((pid, o['key']))
            if k:
                known_hits.append((o, k))
            else:
                violations.append(o)
    selftest = None
    if tier == 'thorough' and emit and os.environ.get('VERIF_NO_SELFTEST') != '1':
        selftest = run_selftest(pid)
        ctx.selftest = selftest
    wall = time.time() - t0
    if emit:
        os.makedirs(os.path.join(EVID, 'violations'), exist_ok=True)
        import glob
        for old in glob.glob(os.path.join(EVID, 'violations', pid + '-*.json')):
            os.remove(old)
        lines = []
        for o, k in known_hits:
            lines.append('KNOWN-FINDING: property=%s %s [%s at %s]' % (pid, k['what_fails'], o['id'], o['where']))
        for i, o in enumerate(violations):
            rp = os.path.join(EVID, 'violations', '%s-%d.json' % (pid, i))
            with open(rp, 'w') as fh:
                json.dump({'property': pid, 'obligation': o, 'repo': repo, 'tier': tier,
                           'configs': {c: infos[c] for c in infos}}, fh, indent=1)
            lines.append('VIOLATION property=%s replay=%s' % (pid, rp))
            lines.append('  %s [%s] %s @ %s: %s' % (o['id'], o['rule'], o['fn'] or '', o['where'] or '?', o['detail']))
        write_evidence(pid, tier, seed, ctx, mod, violations, known_hits, wall, infos)
        okc = sum(1 for o in ctx.obs if o['ok'])
        print('%s tier=%s configs=%s rule-instances=%d ok=%d known=%d violations=%d wall=%.1fs' % (
            pid, tier, ','.join(want), len(ctx.obs), okc, len(known_hits), len(violations), wall))
        for l in lines:
            print(l)
        if selftest:
            print('selftest: %s' % json.dumps(selftest)[:600])
    return ctx, violations, known_hits


def run_selftest(pid):
    """thorough tier: every seeded variant of this property (one broken rule
    instance each, on a scratch copy outside /repo and /verif) must be reported."""
    try:
        from selftest import run as st
        jobs = int(os.environ.get('VERIF_SELFTEST_JOBS', '4'))
        res = st.run_all(prop=pid, jobs=jobs, own_only=True)
    except Exception as e:
        return {'error': '%s' % e}
    out = {'variants': len(res), 'applied': sum(1 for r in res if r['status'] in ('detected', 'missed')),
           'detected': sum(1 for r in res if r['status'] == 'detected'),
           'missed': [r['id'] for r in res if r['status'] == 'missed'],
           'skipped': [{'id': r['id'], 'why': r.get('detail', '')[:120]} for r in res if r['status'] in ('skipped', 'builderror', 'error')]}
    # the other direction: behaviour-preserving refactorings of the anchored code must leave this property's check silent
    if os.environ.get('VERIF_NO_BENIGN') != '1':
        try:
            bres = st.run_all(prop=pid, jobs=jobs, benign=True)
            out['benign'] = {'variants': len(bres), 'silent': sum(1 for r in bres if r['status'] == 'silent'),
                             'false_alarms': [{'id': r['id'], 'reported': r.get('reported', [])[:3]} for r in bres if r['status'] == 'falsealarm'],
                             'skipped': [r['id'] for r in bres if r['status'] in ('skipped', 'builderror', 'error')]}
        except Exception as e:
            out['benign'] = {'error': '%s' % e}
    return out


def write_evidence(pid, tier, seed, ctx, mod, violations, known_hits, wall, infos):
    obs = ctx.obs
    distinct = len({o['key'] for o in obs if o['nontrivial'] and o['ok']})
    samples = []
    seen_rules = set()
    for o in obs:
        if o['rule'] in seen_rules and len(samples) >= 6:
            continue
        seen_rules.add(o['rule'])
        samples.append({'obligation': o['id'], 'rule': o['rule'], 'function': o['fn'], 'where': o['where'],
                        'decided': 'holds' if o['ok'] else 'VIOLATED', 'detail': o['detail'][:400]})
        if len(samples) >= 14:
            break
    nbodies = {c: len(p.bodies) for c, p in ctx.progs.items()}
    ev = {
        'property_id': pid,
        'tier': tier,
        'seed': seed,
        'level': 'other',
        'coverage': {
            'explanation': getattr(mod, 'EXPLANATION', mod.__doc__ or ''),
            'evaluations': len(obs),
            'distinct_nontrivial': distinct,
            'rule': 'one evaluation = one rule instance (obligation) decided on MIR facts freshly extracted from /repo; '
                    'non-trivial = the instance matched at least one construct (guard, call site, path, field) in the '
                    'source and was decided on it; distinct by obligation key',
            'samples': samples,
            'obligations': len(obs),
            'discharged': sum(1 for o in obs if o['ok']),
            'checker_cmd': './check %s --tier %s' % (pid, tier),
            'trusted_base': TRUSTED,
            'configurations': {c: {'cmd': infos[c].get('cmd'), 'source_hash': infos[c].get('source_hash'),
                                   'cached_facts': infos[c].get('cached'), 'bodies': nbodies[c]} for c in infos},
            'counters': ctx.counters,
            'known_findings': [{'key': o['key'], 'what_fails': k['what_fails']} for o, k in known_hits],
            'unlisted_violations': [{'id': o['id'], 'key': o['key'], 'where': o['where'], 'detail': o['detail'][:300]}
                                    for o in violations],
            'floor': getattr(mod, 'FLOOR', 1),
            'selftest': getattr(ctx, 'selftest', None),
            'notes': ctx.notes,
            'exhaustive': False,
        },
        'assumptions': ASSUMPTIONS + list(getattr(mod, 'ASSUMPTIONS', [])),
        'wall_s': round(wall, 2),
        'violations': len(violations),
    }
    os.makedirs(EVID, exist_ok=True)
    tmp = os.path.join(EVID, pid + '.json.tmp')
    with open(tmp, 'w') as fh:
        json.dump(ev, fh, indent=1)
    os.replace(tmp, os.path.join(EVID, pid + '.json'))


def main(argv):
    import argparse
    ap = argparse.ArgumentParser()
    ap.add_argument('property', nargs='?')
    ap.add_argument('--tier', default=os.environ.get('VERIF_TIER', 'quick'))
    ap.add_argument('--replay')
    ap.add_argument('-v', '--verbose', action='store_true')
    ap.add_argument('--repo', default='/repo')
    a = ap.parse_args(argv)
    if a.replay:
        r = json.load(open(a.replay))
        pid = r['property']
        # re-evaluate without touching the evidence / violation files (the replay file itself lives there)
        ctx, violations, _ = run_property(pid, r.get('tier', 'quick'), repo=a.repo, emit=False)
        want = r['obligation']['key']
        hit = [o for o in violations if o['key'] == want]
        if hit:
            print('VIOLATION property=%s replay=%s' % (pid, os.path.abspath(a.replay)))
            print('replay: obligation %s still violated: %s' % (want, hit[0]['detail']))
            return 1
        print('replay: obligation %s no longer violated on the current tree' % want)
        return 0
    if not a.property:
        ap.error('property id required')
    try:
        ctx, violations, _ = run_property(a.property, a.tier, repo=a.repo)
        if a.verbose:
            for o in ctx.obs:
                print('  %s %-40s %-9s %s  -- %s' % ('ok ' if o['ok'] else 'BAD', o['id'], o['rule'], o['where'] or '', o['detail'][:160]))
    except extract.ExtractError as e:
        print('ERROR: fact extraction failed (tree does not build?):\n%s' % e)
        return 2
    return 1 if violations else 0


if __name__ == '__main__':
    sys.exit(main(sys.argv[1:]))
