"""Run akd-lint over /repo (or another tree) and cache the facts by source hash."""
import fcntl
import glob
import hashlib
import json
import os
import shutil
import subprocess
import sys
import time
import uuid

VERIF = os.path.dirname(os.path.dirname(os.path.abspath(__file__)))
DRIVER = os.path.join(VERIF, 'akd-lint', 'target', 'release', 'akd-lint')
FACTS = os.path.join(VERIF, '.facts')
TARGETS = os.path.join(VERIF, '.target')

CONFIGS = {
    # default features + whatsapp_v1: both hashing configurations compiled
    'D': {'args': ['-p', 'akd', '--features', 'whatsapp_v1'], 'crates': ['akd', 'akd_core']},
    # the other body of every cfg twin: sequential VRF, no preload features
    # (both hashing configurations stay compiled so that every "both configurations" rule is evaluated here too)
    'W': {'args': ['-p', 'akd', '--no-default-features', '--features', 'whatsapp_v1,experimental,public_auditing'],
          'crates': ['akd', 'akd_core']},
    # metrics / tracing / serde / public_tests bodies
    'A': {'args': ['-p', 'akd', '--features',
                   'whatsapp_v1,public_tests,serde_serialization,runtime_metrics,tracing,tracing_instrument'],
          'crates': ['akd', 'akd_core']},
    # examples crate: second Database implementation, wasm client
    'X': {'args': ['-p', 'examples'], 'crates': ['akd', 'akd_core', 'akd_examples']},
}


def source_hash(repo):
    h = hashlib.sha256()
    roots = ['akd', 'akd_core', 'examples', 'xtask']
    files = []
    for r in roots:
        for dp, dn, fn in os.walk(os.path.join(repo, r)):
            dn[:] = [d for d in dn if d not in ('target', '.git')]
            for f in fn:
                if f.endswith(('.rs', '.toml', '.proto')):
                    files.append(os.path.join(dp, f))
    for f in ('Cargo.toml', 'Cargo.lock'):
        p = os.path.join(repo, f)
        if os.path.exists(p):
            files.append(p)
    for f in sorted(files):
        h.update(os.path.relpath(f, repo).encode())
        h.update(b'\0')
        with open(f, 'rb') as fh:
            h.update(fh.read())
        h.update(b'\0')
    # the driver is part of the key: new driver => new facts
    try:
        with open(os.path.join(VERIF, 'akd-lint', 'src', 'main.rs'), 'rb') as fh:
            h.update(fh.read())
    except OSError:
        pass
    return h.hexdigest()[:20]


def sysroot():
    return subprocess.check_output(['rustc', '+nightly', '--print', 'sysroot'], text=True).strip()


def ensure_driver():
    if os.path.exists(DRIVER):
        src = os.path.join(VERIF, 'akd-lint', 'src', 'main.rs')
        if os.path.getmtime(src) <= os.path.getmtime(DRIVER):
            return
    env = dict(os.environ, CARGO_NET_OFFLINE='true')
    subprocess.check_call(['cargo', '+nightly', 'build', '--release', '--offline'],
                          cwd=os.path.join(VERIF, 'akd-lint'), env=env,
                          stdout=subprocess.DEVNULL, stderr=subprocess.DEVNULL)


def facts_for(config, repo='/repo', target_dir=None, log=None):
    """Returns (list of fact files, info dict).  Raises ExtractError."""
    cfg = CONFIGS[config]
    os.makedirs(FACTS, exist_ok=True)
    h = source_hash(repo)
    tag = hashlib.sha256(os.path.abspath(repo).encode()).hexdigest()[:6] if os.path.abspath(repo) != '/repo' else 'repo'
    fdir = os.path.join(FACTS, '%s-%s-%s' % (config, tag, h))
    lock = open(os.path.join(FACTS, '.lock-%s-%s' % (config, tag)), 'w')
    fcntl.flock(lock, fcntl.LOCK_EX)
    try:
        done = os.path.join(fdir, 'DONE')
        if os.path.exists(done):
            info = json.load(open(done))
            files = [os.path.join(fdir, c + '.json') for c in cfg['crates']]
            if all(os.path.exists(f) for f in files):
                info['cached'] = True
                return files, info
        ensure_driver()
        t0 = time.time()
        tdir = target_dir or os.path.join(TARGETS, config)
        os.makedirs(tdir, exist_ok=True)
        # cargo replays cached output and skips the wrapper for fresh units:
        # force the workspace members to be rebuilt
        for pat in ('akd-*', 'akd_core-*', 'examples-*'):
            for p in glob.glob(os.path.join(tdir, 'debug', '.fingerprint', pat)):
                shutil.rmtree(p, ignore_errors=True)
        run_id = uuid.uuid4().hex
        out = os.path.join(FACTS, 'tmp-' + run_id)
        os.makedirs(out)
        env = dict(os.environ)
        env.update({
            'LD_LIBRARY_PATH': os.path.join(sysroot(), 'lib'),
            'RUSTFLAGS': '-Zmir-opt-level=0 -Awarnings',
            'RUSTC_WORKSPACE_WRAPPER': DRIVER,
            'AKD_LINT_OUT': out,
            'AKD_LINT_RUN_ID': run_id,
            'AKD_LINT_CRATES': ','.join(cfg['crates']),
            'CARGO_TARGET_DIR': tdir,
            'CARGO_NET_OFFLINE': 'true',
        })
        cmd = ['cargo', '+nightly', 'check', '--offline'] + cfg['args']
        # one cargo at a time per target directory (concurrent self-test / seed-triage runs share worker directories)
        tlock = open(os.path.join(tdir, '.verif-lock'), 'w')
        fcntl.flock(tlock, fcntl.LOCK_EX)
        try:
            for pat in ('akd-*', 'akd_core-*', 'examples-*'):
                for q in glob.glob(os.path.join(tdir, 'debug', '.fingerprint', pat)):
                    shutil.rmtree(q, ignore_errors=True)
            p = subprocess.run(cmd, cwd=repo, env=env, stdout=subprocess.PIPE, stderr=subprocess.STDOUT, text=True)
        finally:
            fcntl.flock(tlock, fcntl.LOCK_UN)
            tlock.close()
        if log:
            with open(log, 'w') as fh:
                fh.write(p.stdout)
        if p.returncode != 0:
            shutil.rmtree(out, ignore_errors=True)
            raise ExtractError('cargo check failed for config %s:\n%s' % (config, p.stdout[-3000:]))
        os.makedirs(fdir, exist_ok=True)
        files = []
        for c in cfg['crates']:
            cands = []
            for f in glob.glob(os.path.join(out, c + '-*.json')):
                if os.path.basename(f).startswith(c + '-test-'):
                    continue
                try:
                    with open(f) as fh:
                        head = fh.read(400)
                except OSError:
                    continue
                if ('"run_id":"%s"' % run_id) in head and '"crate":"%s"' % c in head:
                    cands.append(f)
            if len(cands) != 1:
                shutil.rmtree(out, ignore_errors=True)
                raise ExtractError('expected exactly one fresh fact file for crate %s in config %s, found %d '
                                   '(stale cargo cache?)' % (c, config, len(cands)))
            dst = os.path.join(fdir, c + '.json')
            shutil.move(cands[0], dst)
            files.append(dst)
        shutil.rmtree(out, ignore_errors=True)
        info = {'config': config, 'run_id': run_id, 'source_hash': h, 'extract_s': round(time.time() - t0, 1),
                'cmd': ' '.join(cmd), 'repo': repo}
        with open(done, 'w') as fh:
            json.dump(info, fh)
        prune(config, tag, keep=fdir)
        info['cached'] = False
        return files, info
    finally:
        fcntl.flock(lock, fcntl.LOCK_UN)
        lock.close()


def prune(config, tag, keep, n=3):
    ds = [d for d in glob.glob(os.path.join(FACTS, '%s-%s-*' % (config, tag))) if os.path.isdir(d)]

    def _mt(d):
        try:
            return os.path.getmtime(d)
        except OSError:
            return 0
    ds.sort(key=_mt, reverse=True)
    for d in ds[n:]:
        if d != keep:
            shutil.rmtree(d, ignore_errors=True)
    for d in glob.glob(os.path.join(FACTS, 'tmp-*')):
        try:
            old = time.time() - os.path.getmtime(d) > 3600
        except OSError:      # removed by its owner (a concurrent extraction) in the meantime
            continue
        if old:
            shutil.rmtree(d, ignore_errors=True)


class ExtractError(Exception):
    pass


if __name__ == '__main__':
    cfgs = sys.argv[1:] or ['D']
    for c in cfgs:
        files, info = facts_for(c)
        print(c, info, files)
