"""Static analyses over the MIR facts emitted by akd-lint.

Nothing here executes akd code: everything is CFG / dataflow / expression
reconstruction over `mir_built` bodies (pre coroutine transform).

Main services
  Program        all crates' facts, bodies by path, ADTs, impls, call graph
  Body           CFG, dominators, reaching definitions, expression
                 reconstruction (`expr_*`), events (calls / awaits positioned at
                 their poll), return-kind exploration (`exits`), guards
Expressions are nested tuples (hashable), see `Body.expr_place`.
"""
import json
import os
import re
import sys
from collections import defaultdict, deque

sys.setrecursionlimit(10000)

PLUMBING = {
    'core::future::into_future::IntoFuture::into_future',
    'core::pin::Pin::new_unchecked',
    'core::future::get_context',
    'core::future::future::Future::poll',
    'core::ops::try_trait::Try::branch',
    'core::ops::try_trait::FromResidual::from_residual',
    'core::hint::must_use',
}
TRANSPARENT_CALLS = {
    # value-preserving calls: expr(call(x)) == expr(x)
    'core::ops::deref::Deref::deref', 'core::ops::deref::DerefMut::deref_mut',
    'core::clone::Clone::clone', 'core::convert::Into::into', 'core::convert::From::from',
    'core::convert::AsRef::as_ref', 'core::borrow::Borrow::borrow', 'alloc::borrow::ToOwned::to_owned',
    'core::future::into_future::IntoFuture::into_future', 'core::hint::must_use',
    'alloc::boxed::Box::pin', 'alloc::boxed::Box::new', 'alloc::sync::Arc::new', 'core::pin::Pin::new_unchecked',
    'core::option::Option::as_ref', 'core::option::Option::as_mut', 'core::option::Option::as_deref',
    'core::option::Option::cloned', 'core::option::Option::copied',
    'alloc::vec::Vec::as_slice', 'alloc::slice::[T]::to_vec', 'core::slice::[T]::iter', 'core::iter::traits::collect::IntoIterator::into_iter',
    'core::iter::traits::iterator::Iterator::cloned', 'core::iter::traits::iterator::Iterator::copied',
    'alloc::string::ToString::to_string', 'core::convert::TryInto::try_into',
    'core::iter::traits::iterator::Iterator::rev', 'core::slice::[T]::iter_mut', 'core::iter::traits::iterator::Iterator::by_ref',
    'core::iter::traits::iterator::Iterator::peekable',
}
ENUMISH = {'Result', 'Option', 'ControlFlow', 'Poll'}


def short(path):
    """last two segments of a nice path: `StorageManager::set`"""
    if path is None:
        return None
    parts = split_path(path)
    return '::'.join(parts[-2:])


def split_path(path):
    out, depth, cur = [], 0, ''
    i = 0
    while i < len(path):
        c = path[i]
        if c in '<([':
            depth += 1
        elif c in '>)]':
            depth -= 1
        if c == ':' and depth == 0 and path[i:i + 2] == '::':
            out.append(cur)
            cur = ''
            i += 2
            continue
        cur += c
        i += 1
    out.append(cur)
    return out


def _anchor_renames(loaded):
    """A function of the reference tree (rules/fn_sigs.json) that is missing from the current tree, while exactly one
    new function with the same signature exists in the same module (or, failing that, in the same crate with the same
    parameter names), has been renamed or moved: map the new path back to the frozen one so that the rule tables'
    anchors and callee names keep resolving (renaming a function does not change behaviour)."""
    here = os.path.dirname(os.path.dirname(os.path.abspath(__file__)))
    try:
        frozen = json.load(open(os.path.join(here, 'rules', 'fn_sigs.json')))
        fparams = json.load(open(os.path.join(here, 'rules', 'param_names.json')))
    except (OSError, ValueError):
        return {}
    cur = {}
    crates = set()
    for d in loaded:
        crates.add(d['crate'])
        for b in d['bodies']:
            if b['kind'] == 'fn' and '<' not in b['path'] and '::tests' not in b['path']:
                names = [None] * b['argc']
                for e in b['debug']:
                    if e.get('arg') is not None and e.get('p') and len(e['p']) == 1 and 1 <= e['arg'] <= b['argc']:
                        names[e['arg'] - 1] = e['n']
                cur[b['path']] = ([l['ty'] for l in b['locals'][:b['argc'] + 1]], names)
    missing = [p for p in frozen if p not in cur and p.split('::')[0] in crates]
    fresh = [p for p in cur if p not in frozen]
    if not missing or not fresh:
        return {}
    out = {}
    taken = set()
    for p in sorted(missing):
        parent = p.rsplit('::', 1)[0]
        same_sig = [q for q in fresh if cur[q][0] == frozen[p] and q not in taken]
        cands = [q for q in same_sig if q.rsplit('::', 1)[0] == parent]
        if len(cands) != 1:
            cands = [q for q in same_sig if q.split('::')[0] == p.split('::')[0] and cur[q][1] == fparams.get(p)]
        if len(cands) == 1:
            out[cands[0]] = p
            taken.add(cands[0])
    return out


def _rename_paths(x, ren):
    if isinstance(x, str):
        for q, p in ren.items():
            if x == q:
                return p
            if x.startswith(q + '::'):
                return p + x[len(q):]
        return x
    if isinstance(x, list):
        return [_rename_paths(v, ren) for v in x]
    if isinstance(x, dict):
        return {k: _rename_paths(v, ren) for k, v in x.items()}
    return x


class Program:
    def __init__(self, fact_files):
        self.crates = {}
        self.bodies = {}
        self.adts = {}
        self.adts_by_name = defaultdict(list)
        self.impls = []
        self.features = {}
        loaded = []
        for f in fact_files:
            d = json.load(open(f))
            if d.get('test'):
                continue
            loaded.append(d)
        self.fn_renames = _anchor_renames(loaded)
        if self.fn_renames:
            loaded = [_rename_paths(d, self.fn_renames) for d in loaded]
        for d in loaded:
            self.crates[d['crate']] = d
            self.features[d['crate']] = d['features']
            for b in d['bodies']:
                body = Body(self, b, d['crate'])
                self.bodies[body.path] = body
            for a in d['adts']:
                self.adts[a['path']] = a
                self.adts_by_name[a['name']].append(a)
            for i in d['impls']:
                i['crate'] = d['crate']
                self.impls.append(i)
        self._callgraph = None
        # frozen parameter names (rules/param_names.json): the rule tables name parameters as they were called
        # when the tables were written; a renamed parameter is mapped back by position, so that renaming one is
        # not reported (arguments are passed by position, which is what the rules are about)
        self.param_renames = {}
        try:
            frozen = json.load(open(os.path.join(os.path.dirname(os.path.dirname(os.path.abspath(__file__))),
                                                 'rules', 'param_names.json')))
        except (OSError, ValueError):
            frozen = {}
        for path, names in frozen.items():
            b = self.bodies.get(path)
            if b is None or b.kind != 'fn':
                continue
            cur = b.raw_param_names()
            if len(cur) != len(names) or b.argc != len(names):
                continue
            m = {cur[i + 1]: n for i, n in enumerate(names) if cur.get(i + 1) and n and cur[i + 1] != n}
            # only an unambiguous renaming (no current name maps from/to two parameters)
            if m and len(set(m.values())) == len(m):
                self.param_renames[path] = m
        # trait method decl path -> [impl method paths]
        self.trait_impls = defaultdict(list)
        for b in self.bodies.values():
            if b.raw.get('implements'):
                self.trait_impls[b.raw['implements']].append(b.path)

    # ---- lookup
    def body(self, path):
        return self.bodies.get(path)

    def find(self, suffix, kind=None):
        """bodies whose path ends with `::suffix` (or equals)."""
        res = []
        for p, b in self.bodies.items():
            if p == suffix or p.endswith('::' + suffix):
                if kind is None or b.kind == kind:
                    res.append(b)
        return res

    def one(self, suffix):
        r = self.find(suffix)
        if len(r) != 1:
            raise AnchorError("anchor %r matches %d bodies: %s" % (suffix, len(r), [b.path for b in r][:5]))
        return r[0]

    def fn_and_inner(self, suffix):
        """For `async fn f` / #[async_trait] fn f: the body that holds the code.
        Returns the innermost single coroutine `f::{closure#0}` if f's own body
        only builds it, else f itself."""
        b = self.one(suffix)
        inner = self.bodies.get(b.path + '::{closure#0}')
        if inner is not None and inner.kind == 'coroutine' and b.builds_only(inner.path):
            return inner
        return b

    def children(self, path):
        """closure / coroutine bodies nested (transitively) in `path`."""
        pre = path + '::{closure#'
        return [b for p, b in self.bodies.items() if p.startswith(pre)]

    # ---- call graph
    def callgraph(self):
        if self._callgraph is None:
            g = defaultdict(set)
            for p, b in self.bodies.items():
                for ev in b.calls():
                    for t in self.call_targets(ev):
                        g[p].add(t)
                # closure creation = potential call
                for c in b.closures_created():
                    g[p].add(c)
            self._callgraph = g
        return self._callgraph

    def call_targets(self, ev):
        """workspace-or-external node names a call may reach."""
        out = set()
        fn, res = ev.get('fn'), ev.get('res')
        if res:
            out.add(res)
        elif fn:
            out.add(fn)
            for imp in self.trait_impls.get(fn, ()):  # unresolved trait call: all workspace impls
                out.add(imp)
        return out

    def reachable(self, roots, stop=lambda n: False):
        g = self.callgraph()
        seen, todo = set(), list(roots)
        parent = {}
        while todo:
            n = todo.pop()
            if n in seen:
                continue
            seen.add(n)
            if stop(n):
                continue
            for m in g.get(n, ()):
                if m not in seen:
                    parent.setdefault(m, n)
                    todo.append(m)
        return seen, parent

    def path_to(self, parent, n):
        out = [n]
        while n in parent:
            n = parent[n]
            out.append(n)
        return list(reversed(out))


class AnchorError(Exception):
    pass


class Body:
    def __init__(self, prog, raw, crate):
        self.prog = prog
        self.raw = raw
        self.crate = crate
        self.path = raw['path']
        self.kind = raw['kind']
        self.file = raw['file']
        self.line = raw['line']
        self.blocks = raw['blocks']
        self.argc = raw['argc']
        self.nblocks = len(self.blocks)
        self._succ = None
        self._pred = None
        self._dom = None
        self._defs = None
        self._expr_memo = {}
        self._names = None
        self._mutrefs = None
        self._awaits = None
        self._retlocals = None

    def __repr__(self):
        return '<Body %s>' % self.path

    # ------------------------------------------------------------ names
    def names(self):
        """local -> user name (only for whole-local debug entries);
        and upvar field sym -> name."""
        if self._names is None:
            n = {}
            ren = self.prog.param_renames.get(self.path, {}) if self.kind == 'fn' else {}
            for d in self.raw['debug']:
                p = d.get('p')
                if p and len(p) == 1:
                    nm = d['n']
                    if d.get('arg') is not None:
                        nm = ren.get(nm, nm)
                    n.setdefault(p[0], nm)
            self._names = n
        return self._names

    def root_path(self):
        return self.path.split('::{closure')[0]

    def raw_param_names(self):
        out = {}
        for d in self.raw['debug']:
            if d.get('arg') is not None and d.get('p') and len(d['p']) == 1:
                out[d['arg']] = d['n']
        return out

    def local_named(self, name):
        return [l for l, n in self.names().items() if n == name]

    def param_names(self):
        ren = self.prog.param_renames.get(self.path, {}) if self.kind == 'fn' else {}
        return {i: ren.get(n, n) for i, n in self.raw_param_names().items()}

    def loc(self, pos):
        b, i = pos
        blk = self.blocks[b]
        st = blk['s'][i] if i < len(blk['s']) else blk['t']
        return '%s:%s' % (self.file, st.get('l', '?'))

    # ------------------------------------------------------------ CFG
    def succ(self, b):
        if self._succ is None:
            self._succ = [self._succ_of(i) for i in range(self.nblocks)]
        return self._succ[b]

    def _succ_of(self, b):
        t = self.blocks[b]['t']
        k = t['k']
        if k == 'goto':
            return [t['t']]
        if k == 'switch':
            out = [x[1] for x in t['vals']]
            out.append(t['else'])
            return list(dict.fromkeys(out))
        if k in ('call',):
            return [t['t']] if t['t'] is not None else []
        if k in ('drop', 'assert', 'falseedge', 'falseunwind'):
            return [t['t']]
        if k == 'yield':
            return [t['t']]
        return []

    def pred(self, b):
        if self._pred is None:
            p = [[] for _ in range(self.nblocks)]
            for i in range(self.nblocks):
                if self.blocks[i]['cleanup']:
                    continue
                for s in self.succ(i):
                    p[s].append(i)
            self._pred = p
        return self._pred[b]

    def dom(self):
        """immediate-dominator-free simple dominator sets (bitsets as ints)."""
        if self._dom is None:
            n = self.nblocks
            full = (1 << n) - 1
            dom = [full] * n
            dom[0] = 1
            order = self.rpo()
            changed = True
            while changed:
                changed = False
                for b in order:
                    if b == 0:
                        continue
                    ps = [p for p in self.pred(b)]
                    if not ps:
                        continue
                    v = full
                    for p in ps:
                        v &= dom[p]
                    v |= (1 << b)
                    if v != dom[b]:
                        dom[b] = v
                        changed = True
            self._dom = dom
        return self._dom

    def rpo(self):
        seen, order = set(), []
        stack = [(0, iter(self.succ(0)))]
        seen.add(0)
        while stack:
            b, it = stack[-1]
            adv = False
            for s in it:
                if s not in seen:
                    seen.add(s)
                    stack.append((s, iter(self.succ(s))))
                    adv = True
                    break
            if not adv:
                order.append(b)
                stack.pop()
        order.reverse()
        return order

    def reachable_blocks(self):
        return set(self.rpo())

    def dominates(self, a, b):
        """position a=(blk,idx) dominates position b."""
        (ba, ia), (bb, ib) = a, b
        if ba == bb:
            return ia <= ib
        return bool(self.dom()[bb] >> ba & 1)

    def blk_dominates(self, a, b):
        return bool(self.dom()[b] >> a & 1)

    def reach_avoiding(self, start_blocks, avoid_blocks=(), avoid_edges=()):
        avoid_blocks = set(avoid_blocks)
        avoid_edges = set(avoid_edges)
        seen = set()
        todo = [b for b in start_blocks if b not in avoid_blocks]
        while todo:
            b = todo.pop()
            if b in seen:
                continue
            seen.add(b)
            for s in self.succ(b):
                if s in avoid_blocks or (b, s) in avoid_edges or s in seen:
                    continue
                todo.append(s)
        return seen

    def in_loop(self, b, user_only=True):
        """block b can reach itself (by default ignoring the poll loops of
        `.await`, i.e. cycles through a Yield terminator)."""
        seen = set()
        def nxt(x):
            if user_only and self.blocks[x]['t']['k'] == 'yield':
                return []
            return self.succ(x)
        todo = list(nxt(b))
        while todo:
            x = todo.pop()
            if x == b:
                return True
            if x in seen:
                continue
            seen.add(x)
            todo.extend(nxt(x))
        return False

    # ------------------------------------------------------------ statements
    def stmts(self):
        for b in self.reachable_blocks():
            blk = self.blocks[b]
            for i, s in enumerate(blk['s']):
                yield (b, i), s
            yield (b, len(blk['s'])), blk['t']

    def calls(self):
        for b in sorted(self.reachable_blocks()):
            t = self.blocks[b]['t']
            if t['k'] == 'call':
                yield t

    def call_sites(self):
        for b in sorted(self.reachable_blocks()):
            t = self.blocks[b]['t']
            if t['k'] == 'call':
                yield (b, len(self.blocks[b]['s'])), t

    def closures_created(self):
        out = []
        for pos, s in self.stmts():
            if s.get('k') == 'assign' and s['r'].get('k') == 'agg' and s['r'].get('ak') == 'closure':
                out.append(s['r']['path'])
        return out

    def builds_only(self, inner_path):
        """fn body merely constructs the coroutine `inner_path` (async fn /
        async_trait / async_recursion shells)."""
        cs = self.closures_created()
        if inner_path not in cs:
            return False
        for t in self.calls():
            f = t.get('fn')
            if f in TRANSPARENT_CALLS or f in PLUMBING:
                continue
            if f and ('Box' in f or 'Pin' in f):
                continue
            return False
        return True

    # ------------------------------------------------------------ definitions
    def defs(self):
        """local -> list of (pos, kind, payload); kind in
        assign (payload=(proj, rvalue)), call (payload=terminator), resume"""
        if self._defs is None:
            d = defaultdict(list)
            for pos, s in self.stmts():
                k = s.get('k')
                if k == 'assign':
                    d[s['p'][0]].append((pos, 'assign', s))
                elif k == 'call':
                    d[s['dest'][0]].append((pos, 'call', s))
                elif k == 'yield':
                    d[s['ra'][0]].append((pos, 'resume', s))
            self._defs = d
        return self._defs

    def mutrefs(self):
        """local -> list of (pos_of_call, call terminator) where a `&mut local…`
        temp is passed to a call (potential mutation)."""
        if self._mutrefs is None:
            # temp -> base local for `_t = &mut L.proj` (and reborrows `&mut *_t`)
            base = {}
            for pos, s in self.stmts():
                if s.get('k') == 'assign' and s['r'].get('k') == 'ref' and s['r'].get('m') == 'mut' and len(s['p']) == 1:
                    src = s['r']['p']
                    base[s['p'][0]] = src
            def root(l, depth=0):
                # follow reborrow chains `_a = &mut *_b`
                seen = set()
                while l in base and l not in seen:
                    seen.add(l)
                    src = base[l]
                    if len(src) >= 2 and src[1] == '*' and src[0] in base:
                        l = src[0]
                        continue
                    return src[0], src
                return None
            # derived mutable references: `r = f(&mut L, ..)` with r: &mut _ aliases L
            for _ in range(3):
                for pos, t in self.call_sites():
                    if t.get('rty', '').startswith('&mut ') and len(t['dest']) == 1 and t['dest'][0] not in base:
                        for a in t['args']:
                            p = a.get('m') or a.get('c')
                            if p and len(p) == 1 and p[0] in base:
                                r = root(p[0])
                                if r:
                                    base[t['dest'][0]] = [r[0]]
                                    break
            m = defaultdict(list)
            # closures capturing `&mut L`: passing the closure to a call may mutate L
            clos = defaultdict(list)
            for pos, s in self.stmts():
                if s.get('k') == 'assign' and s['r'].get('k') == 'agg' and s['r'].get('ak') == 'closure' and len(s['p']) == 1:
                    for o in s['r']['ops']:
                        p = o.get('m') or o.get('c')
                        if p and len(p) == 1 and p[0] in base:
                            r = root(p[0])
                            if r:
                                clos[s['p'][0]].append(r)
            for pos, t in self.call_sites():
                for a in t['args']:
                    p = a.get('m') or a.get('c')
                    if p and len(p) == 1 and p[0] in base:
                        r = root(p[0])
                        if r:
                            m[r[0]].append((pos, t, r[1]))
                    if p and len(p) == 1 and p[0] in clos:
                        for r in clos[p[0]]:
                            m[r[0]].append((pos, t, r[1]))
            self._mutrefs = m
        return self._mutrefs

    def reaching_defs(self, local, pos):
        """defs of `local` (whole-local strong defs kill) reaching `pos`."""
        alld = self.defs().get(local, [])
        if len(alld) <= 1 and not (1 <= local <= self.argc):
            return list(alld)
        if not alld:
            return []
        by_block = defaultdict(list)
        for d in alld:
            by_block[d[0][0]].append(d)
        for v in by_block.values():
            v.sort(key=lambda d: d[0][1])
        out = []
        b, i = pos

        def strong(d):
            if d[1] == 'assign':
                return len(d[2]['p']) == 1
            if d[1] == 'call':
                return len(d[2]['dest']) == 1
            return True
        # scan current block backwards from idx
        found_strong = False
        for d in reversed(by_block.get(b, [])):
            if d[0][1] < i:
                out.append(d)
                if strong(d):
                    found_strong = True
                    break
        if found_strong:
            return out
        seen = set()
        todo = list(self.pred(b))
        while todo:
            x = todo.pop()
            if x in seen:
                continue
            seen.add(x)
            killed = False
            for d in reversed(by_block.get(x, [])):
                if x == b and d[0][1] < i:
                    continue  # already collected above
                out.append(d)
                if strong(d):
                    killed = True
                    break
            if not killed:
                todo.extend(self.pred(x))
        # dedupe
        uniq, seen_pos = [], set()
        for d in out:
            if d[0] not in seen_pos:
                seen_pos.add(d[0])
                uniq.append(d)
        return uniq

    # ------------------------------------------------------------ expressions
    # Expr forms:
    #  ('var', name)                user variable / parameter / upvar root
    #  ('local', n)                 unnamed local with no def (should not occur)
    #  ('field', e, name)           .name   ('variant', e, V) downcast
    #  ('elem', e)                  indexing / iteration element
    #  ('const', v)  ('fnref', path)
    #  ('call', fn, res, (args…), site)   site = block index of the call
    #  ('await', e)
    #  ('bin', op, a, b) ('un', op, a) ('cast', a)
    #  ('agg', adt, variant, ((field, e)…)) ('tuple', (e…)) ('array', (e…))
    #  ('closure', path, ((cap, e)…))
    #  ('discr', e)
    #  ('phi', (e…))  ('mutby', call_expr, base_expr)  ('rec',) ('resume',) ('unk', why)
    MAXDEPTH = 40

    def expr_op(self, op, pos, depth=0):
        if 'k' in op:
            k = op['k']
            if 'fn' in k:
                return ('fnref', k['fn'])
            if 'int' in k:
                return ('const', k['int'])
            return ('const', k.get('s'))
        p = op.get('c') or op.get('m')
        return self.expr_place(p, pos, depth)

    def expr_place(self, place, pos, depth=0):
        local, proj = place[0], place[1:]
        return self._expr_local(local, tuple(_pj(p) for p in proj), pos, depth)

    def _expr_local(self, local, proj, pos, depth):
        if depth > self.MAXDEPTH:
            return ('unk', 'depth')
        key = (local, proj, pos if len(self.defs().get(local, [])) > 1 or local in self.mutrefs() else None)
        if key in self._expr_memo:
            v = self._expr_memo[key]
            return ('rec',) if v is None else v
        self._expr_memo[key] = None
        v = self._expr_local_uncached(local, proj, pos, depth)
        self._expr_memo[key] = v
        return v

    def _apply_proj(self, e, proj, pos=None, depth=0):
        for p in proj:
            if p == '*':
                continue
            if p[0] == 'f':
                e = field_of(e, p[1])
            elif p[0] == 'v':
                e = variant_of(e, p[1])
            elif p[0] == 'ix':
                ix = self._expr_local(p[1], (), pos, depth + 1) if pos is not None else None
                e = elem_of(e, ix[1] if ix and ix[0] == 'const' else None)
            elif p[0] == 'cx':
                e = elem_of(e, p[1])
            elif p[0] == 'sub':
                e = elem_of(e, None)
        return e

    def _expr_local_uncached(self, local, proj, pos, depth):
        names = self.names()
        defs = self.reaching_defs(local, pos)
        alts = []
        is_arg = 1 <= local <= self.argc
        if is_arg or not defs:
            if self.kind != 'fn' and local == 1:
                # closure/coroutine environment: field = upvar symbol
                base = ('env', tuple(sorted(self.prog.param_renames.get(self.root_path(), {}).items())))
            elif local in names:
                base = ('var', names[local])
            elif is_arg:
                base = ('var', 'arg%d' % local)
            else:
                base = ('local', local)
            if is_arg or not defs:
                e = self._apply_proj(base, proj, pos, depth)
                if not defs:
                    return self._with_mut(local, e, pos, depth)
                alts.append(e)
        for d in defs:
            dpos, kind, s = d
            if kind == 'assign':
                dproj = tuple(_pj(p) for p in s['p'][1:])
                if dproj:
                    # partial (field) assignment: relevant if prefixes agree
                    n = min(len(dproj), len(proj))
                    if _strip(dproj)[:n] != _strip(proj)[:n] and _strip(dproj) != _strip(proj)[:len(_strip(dproj))]:
                        sd, sp = _strip(dproj), _strip(proj)
                        m = min(len(sd), len(sp))
                        if sd[:m] != sp[:m]:
                            continue
                    e = self._expr_rvalue(s['r'], dpos, depth + 1)
                    sd, sp = _strip(dproj), _strip(proj)
                    if len(sp) >= len(sd) and sp[:len(sd)] == sd:
                        e = self._apply_proj(e, sp[len(sd):], pos, depth)
                    else:
                        e = ('partial', e)
                    alts.append(e)
                else:
                    e = self._expr_rvalue(s['r'], dpos, depth + 1)
                    alts.append(self._apply_proj(e, proj, pos, depth))
            elif kind == 'call':
                e = self._expr_call(s, dpos, depth + 1)
                dproj = tuple(_pj(p) for p in s['dest'][1:])
                alts.append(self._apply_proj(e, proj, pos, depth))
            elif kind == 'resume':
                alts.append(('resume',))
        # user variable name helps readability for phi of nothing
        alts = list(dict.fromkeys(alts))
        e = alts[0] if len(alts) == 1 else ('phi', tuple(alts))
        return self._with_mut(local, e, pos, depth)

    def _with_mut(self, local, e, pos, depth):
        muts = self.mutrefs().get(local)
        if not muts:
            return e
        alts = []
        for (mpos, t, src) in muts:
            if t.get('fn') in PLUMBING or t.get('fn') in TRANSPARENT_CALLS:
                continue
            if self._may_precede(mpos, pos):
                ce = self._expr_call(t, mpos, depth + 1, for_mut=True)
                alts.append(ce)
        if not alts:
            return e
        return ('mutby', tuple(dict.fromkeys(alts)), e)

    def _may_precede(self, a, b):
        """position a may execute before position b (a reaches b)."""
        if a == b:
            return False
        if a[0] == b[0] and a[1] < b[1]:
            return True
        r = self._reach_from(a[0])
        return b[0] in r

    def _reach_from(self, blk):
        if not hasattr(self, '_reach_memo'):
            self._reach_memo = {}
        if blk not in self._reach_memo:
            seen = set()
            todo = list(self.succ(blk))
            while todo:
                x = todo.pop()
                if x in seen:
                    continue
                seen.add(x)
                todo.extend(self.succ(x))
            self._reach_memo[blk] = seen
        return self._reach_memo[blk]

    def _expr_rvalue(self, r, pos, depth):
        k = r['k']
        if k == 'use' or k == 'repeat':
            return self.expr_op(r['o'], pos, depth)
        if k in ('ref', 'rawptr'):
            return self.expr_place(r['p'], pos, depth)
        if k == 'cast':
            return self.expr_op(r['o'], pos, depth)
        if k == 'bin':
            return ('bin', r['op'], self.expr_op(r['a'], pos, depth), self.expr_op(r['b'], pos, depth))
        if k == 'un':
            return ('un', r['op'], self.expr_op(r['a'], pos, depth))
        if k == 'discr':
            return ('discr', self.expr_place(r['p'], pos, depth))
        if k == 'agg':
            ops = [self.expr_op(o, pos, depth) for o in r['ops']]
            ak = r['ak']
            if ak == 'adt':
                fields = r['fields']
                return ('agg', r['adt'], r['variant'], tuple(zip(fields, ops)))
            if ak == 'tuple':
                return ('tuple', tuple(ops))
            if ak == 'array':
                return ('array', tuple(ops))
            if ak == 'closure':
                return ('closure', r['path'], tuple(zip(r['fields'], ops)))
            return ('unk', 'agg')
        return ('unk', k)

    def _expr_call(self, t, pos, depth, for_mut=False):
        fn = t.get('fn')
        args = tuple(self.expr_op(a, pos, depth) for a in t['args'])
        if fn in TRANSPARENT_CALLS and args and not for_mut:
            return args[0]
        if fn == 'core::future::future::Future::poll':
            # value of poll = Poll<awaited output>; Ready.0 projection applied by caller
            fut = args[0] if args else ('unk', 'poll')
            return ('poll', ('await', fut, pos[0]))
        if fn is None:
            return ('call', None, None, (self.expr_op(t['fnop'], pos, depth),) + args, pos[0])
        return ('call', fn, t.get('res'), args, pos[0])

    # ------------------------------------------------------------ events
    def awaits(self):
        """list of dicts: pos (poll block position), fut (expr of the awaited
        future), line."""
        if self._awaits is None:
            out = []
            for pos, t in self.call_sites():
                if t.get('fn') == 'core::future::future::Future::poll':
                    fut = self.expr_op(t['args'][0], pos)
                    out.append({'pos': pos, 'fut': fut, 'line': t.get('l'), 'term': t})
            self._awaits = out
        return self._awaits

    def events(self):
        """Effect events in this body: sync calls (positioned at the call) and
        awaits (positioned at the poll; `calls` lists every call expression
        whose future is driven by this await, outermost first)."""
        out = []
        for pos, t in self.call_sites():
            fn = t.get('fn')
            if fn == 'core::future::future::Future::poll':
                fut = self.expr_op(t['args'][0], pos)
                out.append({'kind': 'await', 'pos': pos, 'line': t.get('l'), 'fut': fut,
                            'calls': list(future_calls(fut))})
            elif fn in PLUMBING:
                continue
            else:
                if is_future_type(t.get('rty', '')):
                    continue  # only builds a future; effect is at its poll
                out.append({'kind': 'call', 'pos': pos, 'line': t.get('l'), 'fn': fn, 'res': t.get('res'), 'term': t,
                            'calls': [self._expr_call(t, pos, 0, for_mut=True)]})
        return out

    # ------------------------------------------------------------ return kinds
    def ret_locals(self):
        if self._retlocals is None:
            R = {0}
            changed = True
            while changed:
                changed = False
                for pos, s in self.stmts():
                    if s.get('k') == 'assign' and len(s['p']) == 1 and s['p'][0] in R and s['r']['k'] == 'use':
                        o = s['r']['o']
                        p = o.get('m') or o.get('c')
                        if p and len(p) == 1 and p[0] not in R and not (1 <= p[0] <= self.argc):
                            R.add(p[0])
                            changed = True
            self._retlocals = R
        return self._retlocals

    def _classify_def(self, s, kind):
        """kind of a definition of a return-carrying local"""
        if kind == 'assign':
            r = s['r']
            if r['k'] == 'agg' and r.get('ak') == 'adt' and r['adt'] in ('Result', 'Option'):
                v = r['variant']
                return 'Err' if v in ('Err', 'None') else 'Ok'
            if r['k'] == 'use':
                o = r['o']
                p = o.get('m') or o.get('c')
                if p and len(p) == 1 and p[0] in self.ret_locals():
                    return None  # carry move
            return 'Other'
        if kind == 'call':
            if s.get('fn') == 'core::ops::try_trait::FromResidual::from_residual':
                return 'Err'
            return 'Call:' + str(short(s.get('res') or s.get('fn')))
        return 'Other'

    def exits(self, start, facts=frozenset(), kind='Inherit', avoid_blocks=(), avoid_edges=(), stop_at=None):
        """Explore forward from position `start` (blk, idx).  Returns the set of
        return kinds reachable ('Ok','Err','Other','Call:f','Inherit',
        'Diverge').  `facts` = known (local, variant) pairs used to prune
        infeasible switch edges (Try::branch on a just-built Err, …)."""
        avoid_blocks = frozenset(avoid_blocks)
        avoid_edges = frozenset(avoid_edges)
        R = self.ret_locals()
        results = set()
        seen = set()
        todo = [(start[0], start[1], facts, kind)]
        if start[0] in avoid_blocks:
            todo = []
        steps = 0
        while todo:
            b, i, fx, kd = todo.pop()
            state = (b, i, fx, kd)
            if state in seen:
                continue
            seen.add(state)
            steps += 1
            if steps > 200000:
                results.add('Other')
                break
            blk = self.blocks[b]
            fxd = dict(fx)
            for j in range(i, len(blk['s'])):
                s = blk['s'][j]
                k = s['k']
                if k == 'assign':
                    p = s['p']
                    if len(p) == 1:
                        l = p[0]
                        fxd.pop(l, None)
                        r = s['r']
                        if r['k'] == 'agg' and r.get('ak') == 'adt' and r['adt'] in ENUMISH:
                            fxd[l] = r['variant']
                        elif r['k'] == 'use':
                            o = r['o']
                            q = o.get('m') or o.get('c')
                            if q and len(q) == 1 and q[0] in fxd:
                                fxd[l] = fxd[q[0]]
                        elif r['k'] == 'discr':
                            q = r['p']
                            if len(q) == 1 and q[0] in fxd:
                                want = fxd[q[0]]
                                for val, nm in r['vars']:
                                    if nm == want:
                                        fxd[l] = ('#', val)
                        if l in R:
                            c = self._classify_def(s, 'assign')
                            if c:
                                kd = c
                    else:
                        if p[0] in R:
                            kd = 'Other'
                elif k == 'dead':
                    fxd.pop(s['loc'], None)
            t = blk['t']
            tk = t['k']
            if (b, len(blk['s'])) == stop_at:
                results.add('Stop')
                continue
            if tk == 'ret':
                results.add(kd)
                continue
            if tk in ('unreachable', 'resume', 'terminate', 'codrop'):
                continue
            nexts = None
            if tk == 'call':
                d = t['dest']
                if len(d) == 1:
                    fxd.pop(d[0], None)
                    fn = t.get('fn')
                    if fn == 'core::ops::try_trait::Try::branch' and t['args']:
                        a = t['args'][0]
                        q = a.get('m') or a.get('c')
                        if q and len(q) == 1 and q[0] in fxd:
                            v = fxd[q[0]]
                            if v in ('Err', 'None'):
                                fxd[d[0]] = 'Break'
                            elif v in ('Ok', 'Some'):
                                fxd[d[0]] = 'Continue'
                    if d[0] in R:
                        kd = self._classify_def(t, 'call')
                if t['t'] is None:
                    results.add('Diverge')
                    continue
                nexts = [t['t']]
            elif tk == 'switch':
                dop = t['d']
                q = dop.get('m') or dop.get('c')
                known = None
                if q and len(q) == 1 and q[0] in fxd and isinstance(fxd[q[0]], tuple):
                    known = fxd[q[0]][1]
                if known is not None:
                    tgt = None
                    for v, tb in t['vals']:
                        if v == known:
                            tgt = tb
                    nexts = [tgt if tgt is not None else t['else']]
                else:
                    nexts = self.succ(b)
            else:
                nexts = self.succ(b)
            nfx = frozenset(fxd.items())
            for n in nexts:
                if n in avoid_blocks or (b, n) in avoid_edges:
                    continue
                todo.append((n, 0, nfx, kd))
        return results

    # ------------------------------------------------------------ guards
    def switches(self):
        for b in sorted(self.reachable_blocks()):
            t = self.blocks[b]['t']
            if t['k'] == 'switch':
                yield b, t

    def guards(self):
        """All conditional branches with one or more failure-only edges.
        Each: dict(block, cond (expr of discriminant), fail_edges [(val|'else',
        target)], pass_edges, line)."""
        if hasattr(self, '_guards'):
            return self._guards
        out = []
        for b, t in self.switches():
            pos = (b, len(self.blocks[b]['s']))
            edges = [(v, tb) for v, tb in t['vals']] + [('else', t['else'])]
            fails, passes = [], []
            for v, tb in edges:
                if self.blocks[tb]['t']['k'] == 'unreachable' and not self.blocks[tb]['s']:
                    continue
                ks = self.exits((tb, 0))
                if ks and ks <= {'Err', 'Diverge'} and 'Err' in ks:
                    fails.append((v, tb))
                else:
                    passes.append((v, tb))
            cond = self.expr_op(t['d'], pos)
            out.append({'block': b, 'cond': cond, 'fail': fails, 'pass': passes, 'line': t.get('l'), 'term': t,
                        'dk': t.get('dk'), 'mac': t.get('mac')})
        self._guards = out
        return out

    def ok_reachable(self, avoid_blocks=(), avoid_edges=(), start=(0, 0)):
        """Is a non-failure exit reachable from start avoiding the barriers?"""
        ks = self.exits(start, avoid_blocks=avoid_blocks, avoid_edges=avoid_edges)
        return bool(ks - {'Err', 'Diverge'}), ks


# ---------------------------------------------------------------- helpers

def _pj(p):
    if p == '*' or p == 'oc' or p == 'ub':
        return '*'
    if p == '[..]':
        return ('sub',)
    if 'f' in p:
        return ('f', p['f'], p.get('o'))
    if 'v' in p:
        return ('v', p['v'])
    if 'ix' in p:
        return ('ix', p['ix'])
    if 'cx' in p:
        return ('cx', p['cx'])
    return ('?',)


def _strip(proj):
    return tuple(p for p in proj if p != '*')


def field_of(e, name):
    """select field `name` of expression e, looking into aggregates"""
    if e[0] == 'agg':
        for f, v in e[3]:
            if f == name:
                return v
    if e[0] == 'tuple' and name.isdigit() and int(name) < len(e[1]):
        return e[1][int(name)]
    if e[0] == 'closure':
        for f, v in e[2]:
            if f == name:
                return v
    if e[0] == 'env':
        # upvar symbol like self__storage -> var self . storage
        parts = name.split('__')
        ren = dict(e[1]) if len(e) > 1 else {}
        r = ('var', ren.get(parts[0], parts[0]))
        for p in parts[1:]:
            r = ('field', r, p)
        return r
    if e[0] == 'phi':
        return ('phi', tuple(dict.fromkeys(field_of(a, name) for a in e[1])))
    if e[0] == 'ready' and name == '0':
        return e[1]
    if e[0] == 'bin' and e[1].endswith('WithOverflow'):
        # checked arithmetic in debug builds: (a op b).0 is the value, .1 the overflow flag
        return ('bin', e[1][:-len('WithOverflow')], e[2], e[3]) if name == '0' else ('field', e, name)
    if e[0] == 'variant' and e[2] == 'Some' and name == '0' and e[1][0] == 'call' and (e[1][1] or '').endswith('::next') and e[1][3]:
        # `for x in coll`: x is an element of the iterated collection
        it = e[1][3][0]
        # drop only the iterator's own advance (`next`) mutations, keep mutations of the collection
        while it[0] == 'mutby' and all(isinstance(c, tuple) and c[0] == 'call' and (c[1] or '').endswith('::next') for c in it[1]):
            it = it[2]
        return elem_of(it, None)
    if e[0] == 'cf' and name == '0':
        return ('try', e[1]) if e[2] == 'Continue' else ('residual', e[1])
    return ('field', e, name)


def elem_of(e, idx):
    """element `idx` (int or None = any) of e"""
    if e[0] in ('array', 'tuple') and isinstance(idx, int) and idx < len(e[1]):
        return e[1][idx]
    if e[0] == 'phi':
        return ('phi', tuple(dict.fromkeys(elem_of(a, idx) for a in e[1])))
    return ('elem', e, idx)


def variant_of(e, v):
    if e[0] == 'poll' and v == 'Ready':
        return ('ready', e[1])
    if e[0] == 'agg' and e[2] == v:
        return e
    if e[0] == 'call' and e[1] == 'core::ops::try_trait::Try::branch' and e[3]:
        return ('cf', e[3][0], v)
    if e[0] == 'phi':
        return ('phi', tuple(dict.fromkeys(variant_of(a, v) for a in e[1])))
    return ('variant', e, v)


def is_future_type(rty):
    return ('Future<' in rty or 'async fn body' in rty or 'async block' in rty or 'async closure' in rty)


def future_calls(fut):
    """call expressions whose future is driven by awaiting `fut` (outermost
    first): the call that built the future and, through pass-through wrappers
    (tic_toc, Instrument::instrument, timeout), the futures given as
    arguments."""
    seen = set()
    todo = [fut]
    while todo:
        e = todo.pop(0)
        if not isinstance(e, tuple) or e in seen:
            continue
        seen.add(e)
        if e[0] == 'call':
            yield e
            nm = (short(e[2] or e[1]) or '').split('::')[-1]
            if nm in FUTURE_WRAPPERS:
                for a in e[3]:
                    if contains_future_call(a):
                        todo.append(a)
        elif e[0] in ('phi',):
            todo.extend(e[1])
        elif e[0] == 'mutby':
            todo.append(e[2])
        elif e[0] in ('field', 'variant', 'elem', 'await', 'ready', 'poll', 'cast', 'try', 'cf'):
            todo.append(e[1])
        elif e[0] == 'agg':
            todo.extend(v for _, v in e[3])
        elif e[0] == 'closure':
            yield e


FUTURE_WRAPPERS = {'tic_toc', 'instrument', 'timeout', 'spawn', 'pin', 'into_future', 'in_current_span'}


def contains_future_call(e):
    return isinstance(e, tuple) and e and e[0] in ('call', 'phi', 'closure', 'agg', 'mutby')


def walk(e):
    """all sub-expressions"""
    if not isinstance(e, tuple):
        return
    yield e
    for x in e[1:]:
        if isinstance(x, tuple):
            if x and isinstance(x[0], str):
                yield from walk(x)
            else:
                for y in x:
                    if isinstance(y, tuple):
                        if y and isinstance(y[0], str) and y[0] in EXPR_TAGS:
                            yield from walk(y)
                        else:
                            for z in y:
                                if isinstance(z, tuple):
                                    yield from walk(z)


EXPR_TAGS = {'var', 'local', 'field', 'variant', 'elem', 'const', 'fnref', 'call', 'await', 'bin', 'un', 'cast', 'agg',
             'tuple', 'array', 'closure', 'discr', 'phi', 'mutby', 'rec', 'resume', 'unk', 'env', 'poll', 'ready', 'partial', 'try', 'residual', 'cf'}


def leaves(e):
    """access paths / constants an expression depends on, as strings"""
    out = set()
    for s in walk(e):
        ap = access_path(s)
        if ap:
            out.add(ap)
        elif s[0] == 'const':
            out.add('const:%s' % (s[1],))
    # drop prefixes that are covered by longer paths? keep all (depends-on is monotone)
    return out


def access_path(e):
    """'proof.version' for field chains rooted at a var; else None"""
    parts = []
    while True:
        if e[0] == 'field':
            parts.append(e[2])
            e = e[1]
        elif e[0] in ('variant',):
            e = e[1]
        elif e[0] == 'elem':
            parts.append('[%s]' % ('*' if e[2] is None else e[2]))
            e = e[1]
        elif e[0] == 'ready':
            return None
        elif e[0] == 'var':
            parts.append(e[1])
            return '.'.join(reversed(parts)).replace('.[', '[')
        else:
            return None


def calls_in(e, name=None):
    """call sub-expressions (optionally whose short fn/res name matches)"""
    for s in walk(e):
        if s[0] == 'call':
            if name is None or call_is(s, name):
                yield s


def call_is(c, name):
    """c = ('call', fn, res, args, site) ; name matches if fn or res ends
    with it (segment-aligned)."""
    names = name if isinstance(name, (list, tuple, set)) else [name]
    for n in names:
        for p in (c[1], c[2]):
            if p and (p == n or p.endswith('::' + n)):
                return True
    return False


def term_is(t, name):
    names = name if isinstance(name, (list, tuple, set)) else [name]
    for n in names:
        for p in (t.get('fn'), t.get('res')):
            if p and (p == n or p.endswith('::' + n)):
                return True
    return False


def show(e, depth=0):
    """compact rendering of an expression for reports"""
    if not isinstance(e, tuple):
        return str(e)
    if depth > 6:
        return '…'
    t = e[0]
    if t == 'var':
        return e[1]
    if t == 'field':
        return '%s.%s' % (show(e[1], depth + 1), e[2])
    if t == 'variant':
        return '%s as %s' % (show(e[1], depth + 1), e[2])
    if t == 'elem':
        return '%s[%s]' % (show(e[1], depth + 1), '*' if e[2] is None else e[2])
    if t == 'const':
        return str(e[1])
    if t == 'fnref':
        return short(e[1])
    if t == 'call':
        return '%s(%s)' % (short(e[2] or e[1]) if (e[1] or e[2]) else 'dyn', ', '.join(show(a, depth + 1) for a in e[3]))
    if t in ('await', 'ready', 'poll'):
        return '%s.await' % show(e[1], depth + 1) if t == 'await' else '%s(%s)' % (t, show(e[1], depth + 1))
    if t == 'try':
        return '%s?' % show(e[1], depth + 1)
    if t in ('residual', 'cf'):
        return '%s(%s)' % (t, show(e[1], depth + 1))
    if t == 'bin':
        return '(%s %s %s)' % (show(e[2], depth + 1), e[1], show(e[3], depth + 1))
    if t == 'un':
        return '%s(%s)' % (e[1], show(e[2], depth + 1))
    if t == 'agg':
        return '%s::%s{%s}' % (e[1], e[2], ', '.join('%s: %s' % (f, show(v, depth + 1)) for f, v in e[3]))
    if t in ('tuple', 'array'):
        return '(%s)' % ', '.join(show(a, depth + 1) for a in e[1])
    if t == 'closure':
        return '|…|@%s' % short(e[1])
    if t == 'discr':
        return 'discr(%s)' % show(e[1], depth + 1)
    if t == 'phi':
        return 'φ(%s)' % ' | '.join(show(a, depth + 1) for a in e[1])
    if t == 'mutby':
        return '%s⟵mut[%s]' % (show(e[2], depth + 1), '; '.join(show(a, depth + 1) for a in e[1]))
    return t
