"""Reusable rule templates over analysis.mir (RF-GUARD, RF-BIND, RF-ORDER, …)."""
import re
from analysis.mir import (walk, leaves, access_path, calls_in, call_is, term_is, show, short, AnchorError,
                          future_calls, PLUMBING, TRANSPARENT_CALLS)

NEG = {'Eq': 'Ne', 'Ne': 'Eq', 'Lt': 'Ge', 'Ge': 'Lt', 'Le': 'Gt', 'Gt': 'Le'}
CMP_CALLS = {
    'core::cmp::PartialEq::eq': 'Eq', 'core::cmp::PartialEq::ne': 'Ne',
    'core::cmp::PartialOrd::lt': 'Lt', 'core::cmp::PartialOrd::le': 'Le',
    'core::cmp::PartialOrd::gt': 'Gt', 'core::cmp::PartialOrd::ge': 'Ge',
}


def strip_result(e):
    """strip await / `?` / pass-through wrappers from a result expression and
    return the underlying call expression(s)."""
    out = []
    todo = [e]
    seen = set()
    while todo:
        x = todo.pop()
        if not isinstance(x, tuple) or x in seen:
            continue
        seen.add(x)
        t = x[0]
        if t in ('await', 'try', 'ready', 'poll', 'cf'):
            todo.append(x[1])
        elif t == 'phi':
            todo.extend(x[1])
        elif t == 'mutby':
            todo.append(x[2])
        elif t == 'call':
            fn = x[1] or ''
            res = x[2] or ''
            sh = short(res or fn) or ''
            if fn in ('core::ops::try_trait::Try::branch',):
                todo.extend(x[3][:1])
            elif sh.endswith('::map_err') or sh.endswith('::or_else') or sh.endswith('::ok_or') or sh.endswith('::ok_or_else'):
                out.append(x)
                todo.extend(x[3][:1])
            elif sh.endswith('::tic_toc') or sh.endswith('::instrument') or sh.endswith('::timeout'):
                out.append(x)
                todo.extend(x[3])
            else:
                out.append(x)
    return out


def failconds(body, g):
    """normalised conditions under which guard g takes a failing edge.
    Returns list of conds:
      ('rel', R, a, b)        R in eq ne lt le  (a R b  => failure)
      ('pred', name, args, truth)   boolean call == truth => failure
      ('isvariant', x, frozenset(names))
      ('bool', expr, truth)
    """
    out = []
    if g.get('fcs') is not None:
        return list(g['fcs'])   # guard inlined from a helper: conditions already normalised and substituted
    cond = g['cond']
    fails = g['fail']
    if not fails:
        return out
    if cond[0] == 'discr':
        names = variant_names(body, g)
        fv = set()
        listed = set()
        t = g['term']
        for v, tb in t['vals']:
            listed.add(v)
        for v, tb in fails:
            if v == 'else':
                for val, nm in names.items():
                    if val not in listed:
                        fv.add(nm)
            else:
                fv.add(names.get(v, str(v)))
        x = cond[1]
        # Ordering from cmp(a, b)
        c = x
        if c[0] == 'call' and (short(c[2] or c[1]) or '').endswith('::cmp') and len(c[3]) == 2:
            a, b = c[3]
            s = frozenset(fv)
            m = {frozenset(['Less']): [('rel', 'lt', a, b)], frozenset(['Greater']): [('rel', 'lt', b, a)],
                 frozenset(['Equal']): [rel('Eq', a, b)], frozenset(['Less', 'Equal']): [('rel', 'le', a, b)],
                 frozenset(['Greater', 'Equal']): [('rel', 'le', b, a)], frozenset(['Less', 'Greater']): [rel('Ne', a, b)]}
            if s in m:
                return m[s]
        out.append(('isvariant', x, frozenset(fv)))
        return out
    for v, tb in fails:
        truth = (v == 'else') if not isinstance(v, int) or v != 0 else False
        if isinstance(v, int) and v != 0:
            truth = True
        out.extend(norm_bool(cond, truth))
    return out


def variant_names(body, g):
    t = g['term']
    d = t['d']
    p = d.get('m') or d.get('c')
    names = {}
    if p and len(p) == 1:
        for dd in body.defs().get(p[0], []):
            if dd[1] == 'assign' and dd[2]['r']['k'] == 'discr':
                for val, nm in dd[2]['r']['vars']:
                    names[val] = nm
    return names


def _len_call(e):
    """(collection expr, 'T::is_empty') if e is a call `T::len(c)`"""
    if isinstance(e, tuple) and e and e[0] == 'call' and len(e[3]) == 1:
        nm = short(e[2] or e[1]) or ''
        if nm.endswith('::len'):
            return e[3][0], nm[:-len('len')] + 'is_empty'
    return None


def rel(op, a, b):
    # emptiness tests written with len(): `c.len() == 0`, `c.len() != 0`, `c.len() > 0`, `c.len() < 1`,
    # `c.len() >= 1` and their mirrored forms are the predicate `c.is_empty()` (one normal form for both spellings)
    for x, y, o in ((a, b, op), (b, a, {'Lt': 'Gt', 'Gt': 'Lt', 'Le': 'Ge', 'Ge': 'Le'}.get(op, op))):
        lc = _len_call(x)
        if lc and isinstance(y, tuple) and y and y[0] == 'const' and y[1] in (0, 1):
            truth = {('Eq', 0): True, ('Ne', 0): False, ('Gt', 0): False, ('Le', 0): True,
                     ('Lt', 1): True, ('Ge', 1): False}.get((o, y[1]))
            if truth is not None:
                return ('pred', lc[1], (lc[0],), truth)
    if op == 'Gt':
        return ('rel', 'lt', b, a)
    if op == 'Ge':
        return ('rel', 'le', b, a)
    if op == 'Lt':
        return ('rel', 'lt', a, b)
    if op == 'Le':
        return ('rel', 'le', a, b)
    a2, b2 = sorted([a, b], key=repr)
    return ('rel', 'eq' if op == 'Eq' else 'ne', a2, b2)


def norm_bool(e, truth):
    """conditions equivalent to (e == truth)"""
    t = e[0]
    if t == 'un' and e[1] == 'Not':
        return norm_bool(e[2], not truth)
    if t == 'bin' and e[1] in NEG:
        op = e[1] if truth else NEG[e[1]]
        return [rel(op, e[2], e[3])]
    if t == 'bin' and e[1] == 'BitOr' and truth is False:
        return norm_bool(e[2], False) + norm_bool(e[3], False)  # both false (conjunction of failures listed)
    if t == 'bin' and e[1] == 'BitOr' and truth is True:
        return [('or', tuple(norm_bool(e[2], True) + norm_bool(e[3], True)))]
    if t == 'bin' and e[1] == 'BitAnd' and truth is True:
        return norm_bool(e[2], True) + norm_bool(e[3], True)
    if t == 'call':
        fn = e[1]
        if fn in CMP_CALLS and len(e[3]) == 2:
            op = CMP_CALLS[fn] if truth else NEG[CMP_CALLS[fn]]
            return [rel(op, e[3][0], e[3][1])]
        return [('pred', short(e[2] or e[1]), e[3], truth)]
    if t == 'phi':
        # e.g. short-circuit materialised into a bool local: treat each alternative
        out = []
        for a in e[1]:
            if a[0] == 'const':
                continue
            out.extend(norm_bool(a, truth))
        return out
    return [('bool', e, truth)]


def has_leaf(e, path):
    """expression depends on access path `path` (exactly or a sub-field of it / whole object)"""
    for l in leaves(e):
        if l == path or l.startswith(path + '.') or l.startswith(path + '['):
            return True
    return False


def uses(e, *paths):
    return all(has_leaf(e, p) for p in paths)


def is_const(e, v):
    return e[0] == 'const' and e[1] == v


def has_call(e, name):
    return any(True for _ in calls_in(e, name))


# ---------------------------------------------------------------- obligations

def side_blocks(body, pred):
    """blocks of conditional branches (either polarity) whose normalised
    condition satisfies pred: legitimate side conditions of a guard."""
    out = []
    for g in body.guards():
        cond = g['cond']
        if cond[0] == 'discr':
            continue
        for truth in (True, False):
            if any(_safe(pred, fc) for fc in norm_bool(cond, truth)):
                out.append(g['block'])
                break
    return out


def side_edges(body, pred):
    """edges (block, target) taken exactly when a boolean branch's normalised condition satisfies pred:
    the only edges over which a guard may legitimately be bypassed (its side condition)."""
    out = []
    for g in body.guards():
        cond = g['cond']
        if cond[0] == 'discr':
            continue
        t = g['term']
        zero = [tb for v, tb in t['vals'] if v == 0]
        for truth in (True, False):
            if any(_safe(pred, fc) for fc in norm_bool(cond, truth)):
                tgt = t['else'] if truth else (zero[0] if zero else None)
                if tgt is not None:
                    out.append((g['block'], tgt))
    return out


def require_guard(ctx, body, oid, rule, pred, desc, start=None, extra_barriers=(), allow_bypass=False, per_iteration=False,
                  bypass_edges=()):
    """There is a guard whose failing condition satisfies `pred`, and no
    non-failure exit is reachable from `start` (default: entry) without passing
    it.  With per_iteration=True the guard may sit in a loop over an iterator:
    the loop header must be on every path and no iteration may complete
    without passing the guard.  Returns matching guards."""
    ms = []
    for g in body.guards():
        if not g['fail']:
            continue
        fcs = failconds(body, g)
        if any(_safe(pred, fc) for fc in fcs):
            ms.append(g)
    if not ms and not per_iteration:
        # the guard may live in a workspace helper whose Result is propagated here:
        # evaluate the helper's unconditional guards under parameter substitution
        ms = inlined_guards(body, pred)
    fn = body.path
    if not ms:
        ctx.ob(oid, rule, False, fn, '%s:%s' % (body.file, body.line),
               'no rejecting guard found for: %s' % desc, key='%s|%s|%s|missing' % (rule, oid, fn))
        return []
    where = '%s:%s' % (body.file, ms[0]['line'])
    loopy = [g for g in ms if body.in_loop(g['block'])]
    if per_iteration and loopy and len(loopy) == len(ms):
        bad = loop_guard_bypass(body, ms, extra_barriers, bypass_edges)
        if bad:
            ctx.ob(oid, rule, False, fn, where, 'guard for "%s" sits in a loop but %s' % (desc, bad),
                   key='%s|%s|%s|bypass' % (rule, oid, fn))
            return ms
    elif not allow_bypass:
        if extra_barriers or bypass_edges:
            # vacuity test: the permitted side conditions alone must not already cut off every non-failing exit
            ok0, _ = body.ok_reachable(avoid_blocks=list(extra_barriers), start=start or (0, 0), avoid_edges=list(bypass_edges))
            if not ok0:
                ctx.ob(oid, rule, False, fn, where, 'rule instance is vacuous: the side conditions of "%s" alone make every '
                       'non-failing exit unreachable, so the must-pass-through test decides nothing' % desc,
                       key='%s|%s|%s|vacuous' % (rule, oid, fn))
                return ms
        okr, kinds = body.ok_reachable(avoid_blocks=[g['block'] for g in ms] + list(extra_barriers), start=start or (0, 0),
                                       avoid_edges=list(bypass_edges))
        if okr:
            ctx.ob(oid, rule, False, fn, where,
                   'guard for "%s" exists (line %s) but a non-failure exit is reachable without passing it '
                   '(exit kinds %s)' % (desc, ms[0]['line'], sorted(kinds)),
                   key='%s|%s|%s|bypass' % (rule, oid, fn))
            return ms
    ctx.ob(oid, rule, True, fn, where, '%s: guard %s' % (desc, show(ms[0]['cond'])[:200]))
    return ms


def subst(e, m):
    """replace ('var', name) leaves by m[name]"""
    if not isinstance(e, tuple):
        return e
    if e and e[0] == 'var' and len(e) == 2 and e[1] in m:
        return m[e[1]]
    return tuple(subst(x, m) if isinstance(x, tuple) else x for x in e)


def inlined_guards(body, pred, depth=1):
    """pseudo-guards located at the `?` of a checked call to a workspace function
    F, for every guard of F that lies on all of F's non-failing paths and whose
    failing condition, with F's parameters replaced by the call's arguments,
    satisfies pred"""
    prog = body.prog
    out = []
    for g in body.guards():
        cond = g['cond']
        if cond[0] != 'discr' or not g['fail']:
            continue
        fcs0 = failconds(body, g)
        bad = set()
        for fc in fcs0:
            if fc[0] == 'isvariant':
                bad |= set(fc[2])
        if not (bad & {'Break', 'Err'}):
            continue
        for c in strip_result(cond[1]):
            tgt = c[2] or c[1]
            if tgt not in prog.bodies:
                continue
            outer = prog.bodies[tgt]
            f = outer
            inner = prog.bodies.get(tgt + '::{closure#0}')
            if inner is not None and inner.kind == 'coroutine' and outer.builds_only(inner.path):
                f = inner
            pn = outer.param_names()
            m = {name: c[3][i - 1] for i, name in pn.items() if i - 1 < len(c[3])}
            for gf in f.guards():
                if not gf['fail']:
                    continue
                okr, _ = f.ok_reachable(avoid_blocks=[gf['block']])
                if okr:
                    continue
                fcs = [subst(fc, m) for fc in failconds(f, gf)]
                if any(_safe(pred, fc) for fc in fcs):
                    pg = dict(g)
                    pg['cond'] = subst(gf['cond'], m)
                    pg['fcs'] = fcs
                    pg['inlined_from'] = f.path
                    out.append(pg)
    return out


def inlined_checked_calls(body, callee):
    """pseudo checked-calls located at the `?` of a checked call to a workspace helper H: for every checked call to
    `callee` inside H that lies on all of H's non-failing paths, with H's parameters replaced by the call's arguments"""
    prog = body.prog
    out = []
    for g in body.guards():
        cond = g['cond']
        if cond[0] != 'discr' or not g['fail']:
            continue
        bad = set()
        for fc in failconds(body, g):
            if fc[0] == 'isvariant':
                bad |= set(fc[2])
        if not (bad & {'Break', 'Err'}):
            continue
        for c in strip_result(cond[1]):
            tgt = c[2] or c[1]
            h = prog.bodies.get(tgt)
            if h is None or h.kind != 'fn' or h.path == body.path:
                continue
            if prog.bodies.get(tgt + '::{closure#0}') is not None and h.builds_only(tgt + '::{closure#0}'):
                continue   # async helper: not inlined
            pn = h.param_names()
            m = {name: c[3][i - 1] for i, name in pn.items() if i - 1 < len(c[3])}
            for cc in checked_calls(h, callee):
                ks = h.exits((0, 0), avoid_blocks=[cc['block']])
                if ks - {'Err', 'Diverge'}:
                    continue
                out.append({'call': subst(cc['call'], m), 'block': g['block'], 'how': 'via ' + h.path, 'line': g['line']})
    return out


def guard_leaves(body, depth=1):
    """access paths that reach a rejecting guard of `body` (RF-COVER): leaves of every failing guard's condition,
    and — when the guard is the `?` of a call to a sync workspace helper — the helper's own guard leaves with its
    parameters replaced by the call's arguments (so passing the whole proof to `check_x(&proof)?` covers exactly
    the fields check_x looks at, not all of them)."""
    prog = body.prog
    lv = set()
    for g in body.guards():
        if not g['fail']:
            continue
        cond = g['cond']
        helpers = []
        if cond[0] == 'discr' and depth > 0:
            for c in strip_result(cond[1]):
                tgt = c[2] or c[1]
                h = prog.bodies.get(tgt)
                if h is None or h.kind != 'fn' or h.path == body.path:
                    continue
                if prog.bodies.get(tgt + '::{closure#0}') is not None and h.builds_only(tgt + '::{closure#0}'):
                    continue
                helpers.append((h, c))
        if not helpers:
            lv |= leaves(cond)
            continue
        for h, c in helpers:
            pn = h.param_names()
            m = {name: c[3][i - 1] for i, name in pn.items() if i - 1 < len(c[3])}
            inner = guard_leaves(h, depth - 1)
            params = set(pn.values())
            for l in inner:
                root = re.split(r'[.\[]', l, 1)[0]
                if root in params and root in m:
                    a = access_path(m[root])
                    if a:
                        lv.add(a + l[len(root):])
                    else:
                        lv |= leaves(m[root])
                else:
                    lv.add(l)
    return lv


def loop_guard_bypass(body, ms, extra_barriers=(), bypass_edges=()):
    """for guards inside `for x in iter` loops: returns a reason string if an
    iteration can complete (or the function can succeed) without the guard."""
    gb = [g['block'] for g in ms] + list(extra_barriers)
    headers = set()
    for g in ms:
        for pos, t in body.call_sites():
            if (short(t.get('res') or t.get('fn')) or '').endswith('::next') and body.blk_dominates(pos[0], g['block']) \
                    and pos[0] in body._reach_from(g['block']):
                headers.add(pos[0])
    if not headers:
        return 'no iterator loop header dominates it'
    okr, kinds = body.ok_reachable(avoid_blocks=list(headers))
    if okr:
        return 'the loop itself can be skipped on a path to a non-failure exit'
    for h in headers:
        # Some-edge of the switch on next()'s result
        t = body.blocks[h]['t']
        nxt = t['t']
        sw = None
        b = nxt
        for _ in range(4):
            tt = body.blocks[b]['t']
            if tt['k'] == 'switch':
                sw = b
                break
            ss = body.succ(b)
            if len(ss) != 1:
                break
            b = ss[0]
        if sw is None:
            return 'cannot find the loop dispatch after Iterator::next'
        names = variant_names(body, {'term': body.blocks[sw]['t']})
        some = [tb for v, tb in body.blocks[sw]['t']['vals'] if names.get(v) == 'Some']
        if not some:
            some = [tb for v, tb in body.blocks[sw]['t']['vals']]
        reach = body.reach_avoiding(some, avoid_blocks=gb, avoid_edges=list(bypass_edges))
        if h in reach:
            return 'an iteration can complete without passing it'
        ks = body.exits((some[0], 0), avoid_blocks=gb + [h], avoid_edges=list(bypass_edges))
        if ks - {'Err', 'Diverge'}:
            return 'a non-failure exit is reachable from inside an iteration without passing it'
    return None


def _safe(pred, x):
    try:
        return bool(pred(x))
    except (IndexError, TypeError, KeyError):
        return False


def checked_calls(body, callee):
    """call sites of `callee` whose Result is propagated: yields dict(call,
    block (barrier), how, line)."""
    out = []
    for g in body.guards():
        cond = g['cond']
        if cond[0] != 'discr' or not g['fail']:
            continue
        fcs = failconds(body, g)
        bad = set()
        for fc in fcs:
            if fc[0] == 'isvariant':
                bad |= set(fc[2])
        if not (bad & {'Break', 'Err', 'None'}):
            continue
        for c in strip_result(cond[1]):
            if call_is(c, callee):
                out.append({'call': c, 'block': g['block'], 'how': 'try', 'line': g['line']})
    R = body.ret_locals()
    for pos, t in body.call_sites():
        if term_is(t, callee) and len(t['dest']) == 1 and t['dest'][0] in R:
            out.append({'call': body._expr_call(t, pos, 0, for_mut=True), 'block': pos[0], 'how': 'tail', 'line': t.get('l')})
    # awaited tail: `_0 = <await result>` where the awaited future is the call
    for pos, s in body.stmts():
        if s.get('k') == 'assign' and len(s['p']) == 1 and s['p'][0] in R and s['r']['k'] == 'use':
            e = body.expr_op(s['r']['o'], pos)
            if e[0] == 'await':
                for c in strip_result(e):
                    if call_is(c, callee):
                        out.append({'call': c, 'block': pos[0], 'how': 'tail-await', 'line': s.get('l')})
    return out


def require_call(ctx, body, oid, rule, callee, argcheck, desc, start=None, allow_bypass=False, per_iteration=False,
                 extra_barriers=(), avoid_edges=()):
    """A call to `callee` whose arguments satisfy argcheck(callexpr) (returns
    True or an error string) lies on every path to a non-failure exit and its
    Result is propagated."""
    fn = body.path
    cs = checked_calls(body, callee)
    allc = [c for ev in body.events() for c in ev['calls'] if isinstance(c, tuple) and c[0] == 'call' and call_is(c, callee)]
    if not cs and not allc and not per_iteration:
        # the checked call may have been moved into a (sync) workspace helper whose Result is propagated here
        cs = inlined_checked_calls(body, callee)
    if not cs:
        if allc:
            ctx.ob(oid, rule, False, fn, '%s:%s' % (body.file, body.line),
                   '%s: call to %s exists but its Result is not propagated (no `?`/match-Err/tail return)' % (desc, callee),
                   key='%s|%s|%s|unchecked' % (rule, oid, fn))
        else:
            ctx.ob(oid, rule, False, fn, '%s:%s' % (body.file, body.line),
                   '%s: no call to %s' % (desc, callee), key='%s|%s|%s|missing' % (rule, oid, fn))
        return []
    good, why = [], []
    for c in cs:
        r = argcheck(c['call']) if argcheck else True
        if r is True:
            good.append(c)
        else:
            why.append('line %s: %s' % (c['line'], r))
    if not good:
        ctx.ob(oid, rule, False, fn, '%s:%s' % (body.file, cs[0]['line']),
               '%s: checked call to %s found but arguments do not bind the required inputs: %s' % (desc, callee, '; '.join(map(str, why))[:500]),
               key='%s|%s|%s|args' % (rule, oid, fn))
        return []
    where = '%s:%s' % (body.file, good[0]['line'])
    if per_iteration and all(body.in_loop(c['block']) for c in good):
        bad = loop_guard_bypass(body, good, extra_barriers)
        if bad:
            ctx.ob(oid, rule, False, fn, where, '%s: checked call to %s sits in a loop but %s' % (desc, callee, bad),
                   key='%s|%s|%s|bypass' % (rule, oid, fn))
            return good
    elif not allow_bypass:
        okr, kinds = body.exits(start or (0, 0), avoid_blocks=[c['block'] for c in good] + list(extra_barriers),
                                avoid_edges=avoid_edges), None
        kinds = okr
        okr = bool(kinds - {'Err', 'Diverge'})
        if okr:
            ctx.ob(oid, rule, False, fn, where,
                   '%s: checked call to %s (line %s) can be bypassed: a non-failure exit is reachable without it (%s)' % (
                       desc, callee, good[0]['line'], sorted(kinds)), key='%s|%s|%s|bypass' % (rule, oid, fn))
            return good
    ctx.ob(oid, rule, True, fn, where, '%s: %s' % (desc, show(good[0]['call'])[:240]))
    return good


def arg(c, i):
    return c[3][i] if i < len(c[3]) else ('unk', 'noarg')


def find_events(body, callee):
    """events (sync calls and awaits) that run `callee`"""
    out = []
    for ev in body.events():
        for c in ev['calls']:
            if isinstance(c, tuple) and c[0] == 'call' and call_is(c, callee):
                out.append((ev, c))
                break
    return out


def success_edge_blocks(body, ev_call_block, callee):
    """for a checked call: the blocks reached only when the call succeeded =
    blocks dominated by the Continue edge target of its `?`."""
    for g in body.guards():
        cond = g['cond']
        if cond[0] != 'discr' or not g['fail']:
            continue
        for c in strip_result(cond[1]):
            if call_is(c, callee) and c[4] == ev_call_block:
                return g
    return None


# ---------------------------------------------------------------- argument binding

def spec_match(e, spec):
    """spec: 'a.b.c' access path | ('variant', Adt, Variant) | ('const', v) |
    ('call', name, [specs]) | ('bin', op, spec, spec) | callable | None (any)"""
    if spec is None:
        return True
    if callable(spec):
        return bool(spec(e))
    if isinstance(spec, str):
        return access_path(e) == spec
    if spec[0] == 'variant':
        return e[0] == 'agg' and e[1] == spec[1] and e[2] == spec[2]
    if spec[0] == 'const':
        return e[0] == 'const' and e[1] == spec[1]
    if spec[0] == 'call':
        if e[0] != 'call' or not call_is(e, spec[1]):
            return False
        return all(spec_match(arg(e, i), s) for i, s in enumerate(spec[2]))
    if spec[0] == 'bin':
        return e[0] == 'bin' and e[1] == spec[1] and spec_match(e[2], spec[2]) and spec_match(e[3], spec[3])
    if spec[0] == 'try':
        return e[0] == 'try' and spec_match(e[1], spec[1])
    if spec[0] == 'any':
        return any(spec_match(e, s) for s in spec[1:])
    return False


def bind(specs):
    """argcheck for require_call: positional argument specs"""
    def f(c):
        bad = []
        for i, s in enumerate(specs):
            if not spec_match(arg(c, i), s):
                bad.append('arg %d is %s, expected %s' % (i, show(arg(c, i))[:80], s if not callable(s) else 'predicate'))
        return True if not bad else '; '.join(bad)
    return f


def decisions(body, pred):
    """boolean branches whose condition (when true) satisfies pred.
    Returns list of dict(block, true_target, false_target, cond)."""
    out = []
    for b, t in body.switches():
        pos = (b, len(body.blocks[b]['s']))
        cond = body.expr_op(t['d'], pos)
        if cond[0] == 'discr':
            continue
        if any(_safe(pred, fc) for fc in norm_bool(cond, True)):
            ft = [tb for v, tb in t['vals'] if v == 0]
            out.append({'block': b, 'true': t['else'], 'false': ft[0] if ft else None, 'cond': cond, 'line': t.get('l')})
        elif any(_safe(pred, fc) for fc in norm_bool(cond, False)):
            ft = [tb for v, tb in t['vals'] if v == 0]
            out.append({'block': b, 'true': ft[0] if ft else None, 'false': t['else'], 'cond': cond, 'line': t.get('l')})
    return out


def edge_dominates(body, edge, block):
    """every path from entry to `block` takes edge (a, b)"""
    r = body.reach_avoiding([0], avoid_edges=[edge])
    return block not in r


def variant_edges(body, pred_scrutinee):
    """switches on discr(x) with pred_scrutinee(x): returns list of
    dict(block, edges {variant name: target}, else)"""
    out = []
    for g in body.guards():
        c = g['cond']
        if c[0] == 'discr' and _safe(pred_scrutinee, c[1]):
            names = variant_names(body, g)
            t = g['term']
            edges = {names.get(v, str(v)): tb for v, tb in t['vals']}
            out.append({'block': g['block'], 'edges': edges, 'else': t['else'], 'names': names, 'line': g['line']})
    return out


def ok_aggregates(body):
    """expressions of the values returned in Ok(..) (assignments of Result::Ok
    to a return-carrying local)"""
    out = []
    R = body.ret_locals()
    for pos, s in body.stmts():
        if s.get('k') == 'assign' and len(s['p']) == 1 and s['p'][0] in R and s['r']['k'] == 'agg' \
                and s['r'].get('adt') == 'Result' and s['r'].get('variant') == 'Ok':
            out.append((pos, body.expr_op(s['r']['ops'][0], pos)))
    return out


def result_expr(body):
    """expression of the returned value (all return-carrying definitions)"""
    ret = [b for b in sorted(body.reachable_blocks()) if body.blocks[b]['t']['k'] == 'ret']
    alts = []
    for b in ret:
        pos = (b, len(body.blocks[b]['s']))
        alts.append(body.expr_place([0], pos))
    alts = list(dict.fromkeys(alts))
    if not alts:
        return ('unk', 'noreturn')
    return alts[0] if len(alts) == 1 else ('phi', tuple(alts))


def flow_complete(ctx, oid, body, params, desc):
    """RF-FLOW (a): the returned value depends on every listed parameter"""
    e = result_expr(body)
    missing = [p for p in params if not has_leaf(e, p)]
    ctx.ob(oid, 'RF-FLOW', not missing, body.path, '%s:%s' % (body.file, body.line),
           ('%s: result depends on %s' % (desc, ', '.join(params))) if not missing else
           ('%s: result does not depend on parameter(s) %s (result = %s)' % (desc, ', '.join(missing), show(e)[:300])),
           key='RF-FLOW|%s|%s' % (oid, body.path))
    return e


# ---------------------------------------------------------------- per-path symbolic decisions

def strip_mut(e):
    """expression with every ('mutby', calls, base) replaced by its base"""
    if not isinstance(e, tuple):
        return e
    if e and e[0] == 'mutby':
        return strip_mut(e[2])
    return tuple(strip_mut(x) if isinstance(x, tuple) else x for x in e)


def symbolic_decisions(body, start_block, max_states=4000, stop_blocks=()):
    """Explore forward from start_block carrying, per path, the comparison
    expression last assigned to each bool local.  Returns decisions taken on
    such values: list of dict(block, cond (expr), true, false, line) — the
    per-arm form of `let take = match flag { A => x >= y, B => x <= y }; if take {..}`
    as well as the direct `if x >= y` form."""
    out = {}
    seen = set()
    todo = [(start_block, frozenset())]
    n = 0
    while todo:
        b, fx = todo.pop()
        if (b, fx) in seen or b in stop_blocks:
            continue
        seen.add((b, fx))
        n += 1
        if n > max_states:
            break
        blk = body.blocks[b]
        f = dict(fx)
        for i, s in enumerate(blk['s']):
            if s['k'] == 'assign' and len(s['p']) == 1:
                l = s['p'][0]
                f.pop(l, None)
                r = s['r']
                if r['k'] == 'bin' and r['op'] in NEG or (r['k'] == 'un' and r['op'] == 'Not'):
                    f[l] = body._expr_rvalue(r, (b, i), 0)
                elif r['k'] == 'use':
                    o = r['o']
                    q = o.get('m') or o.get('c')
                    if q and len(q) == 1 and q[0] in f:
                        f[l] = f[q[0]]
                    elif 'k' in o and o['k'].get('ty') == 'bool':
                        f[l] = ('const', o['k'].get('int'))
            elif s['k'] == 'dead':
                f.pop(s['loc'], None)
        t = blk['t']
        if t['k'] == 'call' and len(t['dest']) == 1:
            l = t['dest'][0]
            f.pop(l, None)
            if t.get('fn') in CMP_CALLS:
                f[l] = body._expr_call(t, (b, len(blk['s'])), 0)
        if t['k'] == 'switch':
            q = t['d'].get('m') or t['d'].get('c')
            if q and len(q) == 1 and q[0] in f and f[q[0]][0] != 'const':
                ft = [tb for v, tb in t['vals'] if v == 0]
                out[(b, f[q[0]])] = {'block': b, 'cond': f[q[0]], 'true': t['else'], 'false': ft[0] if ft else None, 'line': t.get('l')}
            elif q and len(q) == 1 and q[0] in f and f[q[0]][0] == 'const':
                # constant arm: only one edge feasible
                val = f[q[0]][1]
                tgt = None
                for v, tb in t['vals']:
                    if v == val:
                        tgt = tb
                nxt = [tgt if tgt is not None else t['else']]
                nf = frozenset(f.items())
                for x in nxt:
                    todo.append((x, nf))
                continue
        if t['k'] in ('ret', 'unreachable', 'resume', 'terminate', 'codrop'):
            continue
        nf = frozenset(f.items())
        for x in body.succ(b):
            todo.append((x, nf))
    return list(out.values())


def split_fields(e):
    """peel trailing field / element / variant projections: (root expr, 'a.b[*].c')"""
    parts = []
    while True:
        if e[0] == 'field':
            parts.append('.' + e[2])
            e = e[1]
        elif e[0] == 'variant':
            e = e[1]
        elif e[0] == 'elem':
            parts.append('[%s]' % ('*' if e[2] is None else e[2]))
            e = e[1]
        else:
            break
    return e, ''.join(reversed(parts)).lstrip('.')
