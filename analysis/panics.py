"""RF-PANIC: enumeration of potential panic sites reachable from entry points
inside workspace code."""
from analysis.mir import short, term_is, show

PANIC_CALLS = ('Option::unwrap', 'Result::unwrap', 'Option::expect', 'Result::expect', 'Result::unwrap_err', 'Result::expect_err')
PANIC_FNS_PREFIX = ('core::panicking::', 'std::rt::begin_panic', 'core::option::unwrap_failed', 'core::result::unwrap_failed')
LEN_SENSITIVE = ('copy_from_slice', 'clone_from_slice', 'split_at', 'split_at_mut', 'swap', 'remove', 'insert', 'drain', 'split_off',
                 'swap_remove', 'chunks_exact')


def tryinto_targets(prog, t):
    """TryInto::try_into / Into::into resolve into core's blanket impl; map to the
    workspace TryFrom/From impl by target type name"""
    fn = t.get('fn') or ''
    out = []
    if fn.endswith('TryInto::try_into') or fn.endswith('Into::into'):
        gen = t.get('gen', [])
        if len(gen) >= 2:
            tgt = gen[1].split('<')[0].split('::')[-1].strip('&[] ')
            kind = 'TryFrom>::try_from' if 'try_into' in fn else 'From>::from'
            for p in prog.bodies:
                if p.endswith(kind) and ('<%s as ' % tgt) in p:
                    out.append(p)
    return out


def reachable_ws(prog, roots):
    seen, parent = set(), {}
    todo = list(roots)
    while todo:
        n = todo.pop()
        if n in seen or n not in prog.bodies:
            continue
        seen.add(n)
        b = prog.bodies[n]
        nxt = set(b.closures_created())
        for t in b.calls():
            for x in prog.call_targets(t):
                nxt.add(x)
            for x in tryinto_targets(prog, t):
                nxt.add(x)
        for m in nxt:
            if m not in seen and m in prog.bodies:
                parent.setdefault(m, n)
                todo.append(m)
    return seen, parent


def sites(prog, body):
    """list of dict(kind, what, pos, line, expr) potential panic sites in body"""
    out = []
    for pos, t in body.call_sites():
        fn = t.get('res') or t.get('fn') or ''
        sh = short(fn) or ''
        if t.get('mac') in ('format', 'write', 'info', 'debug', 'error', 'warn', 'trace') and not fn.startswith('core::panicking'):
            continue
        if term_is(t, PANIC_CALLS):
            a = body.expr_op(t['args'][0], pos) if t['args'] else None
            out.append({'kind': 'unwrap', 'what': sh, 'pos': pos, 'line': t.get('l'), 'arg': a, 'mac': t.get('mac')})
        elif fn.startswith(PANIC_FNS_PREFIX):
            out.append({'kind': 'panic', 'what': sh, 'pos': pos, 'line': t.get('l'), 'arg': None, 'mac': t.get('mac')})
        elif sh.endswith('::index') or sh.endswith('::index_mut'):
            if 'HashMap' in sh or 'BTreeMap' in sh:
                kind = 'mapindex'
            else:
                kind = 'index'
            args = [body.expr_op(a, pos) for a in t['args']]
            out.append({'kind': kind, 'what': sh, 'pos': pos, 'line': t.get('l'), 'arg': args, 'mac': t.get('mac')})
        elif sh.split('::')[-1] in LEN_SENSITIVE and ('[T]' in sh or 'Vec' in sh or 'slice' in fn):
            args = [body.expr_op(a, pos) for a in t['args']]
            out.append({'kind': 'lencall', 'what': sh, 'pos': pos, 'line': t.get('l'), 'arg': args, 'mac': t.get('mac')})
    for b in sorted(body.reachable_blocks()):
        t = body.blocks[b]['t']
        if t['k'] == 'assert':
            pos = (b, len(body.blocks[b]['s']))
            out.append({'kind': 'assert:' + t.get('msg', '?'), 'what': t.get('msg'), 'pos': pos, 'line': t.get('l'),
                        'arg': body.expr_op(t['c'], pos), 'mac': t.get('mac')})
    return out
