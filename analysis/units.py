"""RF-UNIT: epoch / version dimension inference over reconstructed expressions.

Every u64 gets a dimension 'E' (epoch), 'V' (version) or none, seeded from
field names, parameter names (debug info), the payload of
ValueStateRetrievalFlag variants and the documented contract of
`get_user_state_versions` (tuple .0 is a version).  +/-1, min, max, casts,
clones, phis preserve the dimension.  A value of one dimension reaching a
slot of the other (call argument by parameter name, struct-literal field,
comparison operand) is a mismatch."""
import re
from analysis.mir import walk, show, short, call_is, calls_in

E_FIELDS = {'epoch', 'latest_epoch', 'last_epoch', 'min_descendant_epoch', 'least_descendant_ep', 'birth_epoch'}
V_FIELDS = {'version'}
FLAG_DIM = {'SpecificVersion': 'V', 'SpecificEpoch': 'E', 'LeqEpoch': 'E'}


def name_dim(n):
    if n is None:
        return None
    n = n.lower()
    if n.startswith('_'):
        n = n[1:]
    if 'epoch' in n or n in ('ep', 'start_ep', 'end_ep') or n.endswith('_ep'):
        if 'version' in n:
            return None
        return 'E'
    if 'version' in n or n == 'ver':
        if 'marker' in n and 'log2' in n:
            return None
        return 'V'
    return None


def dims(e, depth=0):
    """set of dimensions an expression may carry"""
    if not isinstance(e, tuple) or depth > 30:
        return set()
    t = e[0]
    if t == 'var':
        d = name_dim(e[1])
        return {d} if d else set()
    if t == 'field':
        if e[2] in E_FIELDS:
            return {'E'}
        if e[2] in V_FIELDS:
            return {'V'}
        base = e[1]
        # payload of a retrieval flag variant
        if base[0] == 'variant' and base[2] in FLAG_DIM and e[2] == '0':
            return {FLAG_DIM[base[2]]}
        # tuple .0 of a get_user_state_versions result entry
        if e[2] == '0' and _from_versions_map(base):
            return {'V'}
        d = name_dim(e[2])
        return {d} if d else set()
    if t in ('variant', 'elem', 'cast', 'try', 'await', 'ready'):
        return dims(e[1], depth + 1)
    if t == 'phi':
        out = set()
        for a in e[1]:
            out |= dims(a, depth + 1)
        return out
    if t == 'mutby':
        return dims(e[2], depth + 1)
    if t == 'bin':
        if e[1] in ('Add', 'Sub', 'AddWithOverflow', 'SubWithOverflow'):
            a, b = dims(e[2], depth + 1), dims(e[3], depth + 1)
            if e[3][0] == 'const':
                return a
            if e[2][0] == 'const':
                return b
            return a | b
        return set()
    if t == 'call':
        sh = short(e[2] or e[1]) or ''
        last = sh.split('::')[-1]
        if last in ('min', 'max', 'clone', 'unwrap', 'unwrap_or', 'saturating_sub', 'saturating_add', 'wrapping_add'):
            out = set()
            for a in e[3]:
                out |= dims(a, depth + 1)
            return out
        if last in ('get_latest_epoch', 'get_epoch', 'smallest_descendant_ep'):
            return {'E'}
        d = name_dim(last) if last.startswith('get_') else None
        return {d} if d else set()
    if t == 'agg' and e[1] in ('Option', 'Result') and e[3]:
        return dims(e[3][0][1], depth + 1)
    return set()


def _from_versions_map(e):
    """e denotes an entry (tuple) of the map returned by get_user_state_versions"""
    for s in walk(e):
        if s[0] == 'call' and (short(s[2] or s[1]) or '').endswith('::get_user_state_versions'):
            # no narrowing field access between e and the call other than map get / iteration
            return True
    return False


ALLOWED_CMP_FNS = {
    # legitimate epoch-vs-version comparisons (version <= epoch invariant checks)
    'akd_core::verify::lookup::lookup_verify',
    'akd_core::verify::history::verify_with_history_params',
    'akd_core::utils::get_marker_versions',
}


def check_body(prog, body, report, allowed_cmp=ALLOWED_CMP_FNS):
    """report(kind, key, where, detail) for each mismatch in body; returns the
    number of dimensioned sites inspected."""
    n = 0
    for pos, s in body.stmts():
        k = s.get('k')
        if k == 'assign':
            r = s['r']
            if r['k'] == 'agg' and r.get('ak') == 'adt':
                for f, o in zip(r['fields'], r['ops']):
                    want = 'E' if f in E_FIELDS else 'V' if f in V_FIELDS else None
                    if r['adt'] == 'ValueStateRetrievalFlag':
                        want = FLAG_DIM.get(r['variant'])
                    if not want:
                        continue
                    e = body.expr_op(o, pos)
                    got = dims(e)
                    n += 1
                    if got and want not in got:
                        report('field', '%s.%s' % (r['adt'], f if r['adt'] != 'ValueStateRetrievalFlag' else r['variant']),
                               body.loc(pos), '%s-valued expression %s stored in %s slot %s::%s.%s' % (
                                   '/'.join(sorted(got)), show(e)[:120], want, r['adt'], r['variant'], f))
            elif r['k'] == 'bin' and r['op'] in ('Eq', 'Ne', 'Lt', 'Le', 'Gt', 'Ge'):
                a, b = body.expr_op(r['a'], pos), body.expr_op(r['b'], pos)
                da, db = dims(a), dims(b)
                if da and db:
                    n += 1
                    if not (da & db) and body.path.split('::{closure')[0] not in allowed_cmp:
                        report('cmp', 'cmp', body.loc(pos), 'comparison between %s-valued %s and %s-valued %s' % (
                            '/'.join(sorted(da)), show(a)[:100], '/'.join(sorted(db)), show(b)[:100]))
        elif k == 'call':
            fn = s.get('res') or s.get('fn')
            if not fn:
                continue
            callee = prog.bodies.get(fn)
            pn = callee.param_names() if callee is not None else {}
            sh = short(fn) or ''
            for i, a in enumerate(s['args']):
                want = name_dim(pn.get(i + 1))
                if want is None:
                    continue
                e = body.expr_op(a, pos)
                got = dims(e)
                n += 1
                if got and want not in got:
                    report('arg', '%s#%s' % (sh, pn.get(i + 1)), body.loc(pos),
                           '%s-valued expression %s passed as %s-parameter `%s` of %s' % (
                               '/'.join(sorted(got)), show(e)[:120], want, pn.get(i + 1), sh))
            # versions map: inserted tuple .0 must be a version
            if sh.endswith('HashMap::insert') and len(s['args']) == 3:
                m = body.expr_op(s['args'][0], pos)
                if _from_versions_map(m):
                    v = body.expr_op(s['args'][2], pos)
                    if v[0] == 'tuple' and v[1]:
                        got = dims(v[1][0])
                        n += 1
                        if got and 'V' not in got:
                            report('mapval', 'versions-map.0', body.loc(pos),
                                   '%s-valued expression %s inserted as the version component of the user-state-versions map' % (
                                       '/'.join(sorted(got)), show(v[1][0])[:120]))
    return n
