"""debug helper: python3 -m analysis.dump <facts...> -- <fn suffix>"""
import sys, glob
from analysis.mir import *
def main():
    args=sys.argv[1:]
    i=args.index('--')
    from analysis import extract
    cfg=args[0] if i>0 else 'D'
    prog=Program(extract.facts_for(cfg)[0])
    for suf in args[i+1:]:
        for b in prog.find(suf):
            print('=====',b.path,b.kind,b.file,b.line,'blocks',b.nblocks)
            print(' params',b.param_names())
            print(' -- events')
            for ev in b.events():
                print('  ',ev['kind'],ev['pos'],'L%s'%ev['line'],' ; '.join(show(c) for c in ev['calls']) if ev['calls'] else show(ev.get('fut')))
            print(' -- guards')
            for g in b.guards():
                if g['fail']:
                    print('  blk',g['block'],'L%s'%g['line'],g.get('dk') or g.get('mac') or '',show(g['cond']),'FAIL',g['fail'],'PASS',g['pass'])
            print(' -- exits from entry',b.exits((0,0)))
if __name__=='__main__': main()
