//! akd-lint: fact extractor for the static checks under /verif.
//!
//! A `rustc_private` driver, injected with RUSTC_WORKSPACE_WRAPPER.  For the
//! crates named in AKD_LINT_CRATES it dumps, in `after_expansion`, the
//! `mir_built` body of every function, closure and coroutine (pre coroutine
//! transform: `Yield` terminators are intact) plus ADT / impl / visibility
//! facts as one JSON file per rustc process into AKD_LINT_OUT.  It never runs
//! akd code; it only reads the type-checked program.
#![feature(rustc_private)]
#![allow(clippy::all)]

extern crate rustc_abi;
extern crate rustc_driver;
extern crate rustc_hir;
extern crate rustc_interface;
extern crate rustc_middle;
extern crate rustc_session;
extern crate rustc_span;

use rustc_driver::{Callbacks, Compilation};
use rustc_hir::def::DefKind;
use rustc_hir::def_id::{DefId, LocalDefId, LOCAL_CRATE};
use rustc_hir::definitions::DefPathData;
use rustc_middle::mir::{
    self, AggregateKind, BorrowKind, Body, Operand, Place, ProjectionElem, Rvalue, StatementKind,
    TerminatorKind, UnwindAction,
};
use rustc_middle::ty::{self, Instance, Ty, TyCtxt, TypeVisitableExt, TypingEnv};
use rustc_span::{ExpnKind, Span};
use std::fmt::Write as _;

// ---------------------------------------------------------------- JSON util

fn esc(s: &str) -> String {
    let mut o = String::with_capacity(s.len() + 2);
    o.push('"');
    for c in s.chars() {
        match c {
            '"' => o.push_str("\\\""),
            '\\' => o.push_str("\\\\"),
            '\n' => o.push_str("\\n"),
            '\r' => o.push_str("\\r"),
            '\t' => o.push_str("\\t"),
            c if (c as u32) < 0x20 => {
                let _ = write!(o, "\\u{:04x}", c as u32);
            }
            c => o.push(c),
        }
    }
    o.push('"');
    o
}

fn cap(s: String, n: usize) -> String {
    if s.len() <= n {
        s
    } else {
        let mut e = n;
        while !s.is_char_boundary(e) {
            e -= 1;
        }
        format!("{}…", &s[..e])
    }
}

fn jlist(items: Vec<String>) -> String {
    format!("[{}]", items.join(","))
}

// ---------------------------------------------------------------- paths

/// A readable, edit-stable path: crate::mods::Type::method, closures as
/// `{closure#n}`, trait impls as `<Type as Trait>::method`.
fn nice_path(tcx: TyCtxt<'_>, did: DefId) -> String {
    let key = tcx.def_key(did);
    let parent = match key.parent {
        Some(p) => DefId { krate: did.krate, index: p },
        None => return tcx.crate_name(did.krate).to_string(),
    };
    match key.disambiguated_data.data {
        DefPathData::Impl => {
            let self_ty = tcx.type_of(did).instantiate_identity().skip_norm_wip();
            let self_s = short_ty(tcx, self_ty);
            let base = nice_path(tcx, parent);
            if tcx.impl_opt_trait_ref(did).is_some() {
                let tr = tcx.impl_trait_id(did);
                format!("{}::<{} as {}>", base, self_s, tcx.item_name(tr))
            } else {
                format!("{}::{}", base, self_s)
            }
        }
        DefPathData::Closure => {
            format!("{}::{{closure#{}}}", nice_path(tcx, parent), key.disambiguated_data.disambiguator)
        }
        DefPathData::TypeNs(n) | DefPathData::ValueNs(n) | DefPathData::MacroNs(n) | DefPathData::LifetimeNs(n) => {
            format!("{}::{}", nice_path(tcx, parent), n)
        }
        ref other => {
            format!("{}::{{{:?}#{}}}", nice_path(tcx, parent), other, key.disambiguated_data.disambiguator)
        }
    }
}

fn short_ty<'tcx>(tcx: TyCtxt<'tcx>, t: Ty<'tcx>) -> String {
    match t.kind() {
        ty::Adt(def, _) => tcx.item_name(def.did()).to_string(),
        ty::Ref(_, inner, _) => format!("&{}", short_ty(tcx, *inner)),
        _ => cap(ty_str(t), 80),
    }
}

fn ty_str(t: Ty<'_>) -> String {
    rustc_middle::ty::print::with_no_trimmed_paths!(format!("{}", t))
}

// ---------------------------------------------------------------- spans

struct Cx<'tcx> {
    tcx: TyCtxt<'tcx>,
}

impl<'tcx> Cx<'tcx> {
    fn span_json(&self, sp: Span) -> String {
        let sm = self.tcx.sess.source_map();
        let cs = sp.source_callsite();
        let loc = sm.lookup_char_pos(cs.lo());
        let mut s = format!("\"l\":{}", loc.line);
        if sp.from_expansion() {
            let ed = sp.ctxt().outer_expn_data();
            match ed.kind {
                ExpnKind::Desugaring(k) => {
                    let _ = write!(s, ",\"dk\":{}", esc(&format!("{:?}", k)));
                }
                ExpnKind::Macro(_, name) => {
                    let _ = write!(s, ",\"mac\":{}", esc(&name.to_string()));
                }
                _ => {
                    let _ = write!(s, ",\"mac\":\"?\"");
                }
            }
            // innermost line too (inside the macro definition or the desugared span)
            let inner = sm.lookup_char_pos(sp.lo());
            let _ = write!(s, ",\"il\":{}", inner.line);
        }
        s
    }

    fn file_line(&self, sp: Span) -> (String, usize, usize) {
        let sm = self.tcx.sess.source_map();
        let cs = sp.source_callsite();
        let lo = sm.lookup_char_pos(cs.lo());
        let hi = sm.lookup_char_pos(cs.hi());
        let f = match &lo.file.name {
            rustc_span::FileName::Real(r) => match r.local_path() {
                Some(p) => p.display().to_string(),
                None => format!("{:?}", r),
            },
            other => format!("{:?}", other),
        };
        (f, lo.line, hi.line)
    }

    // ------------------------------------------------------------ places

    fn place_json(&self, body: &Body<'tcx>, p: &Place<'tcx>) -> String {
        let tcx = self.tcx;
        let mut out = vec![format!("{}", p.local.as_usize())];
        let mut pty = mir::PlaceTy::from_ty(body.local_decls[p.local].ty);
        for elem in p.projection.iter() {
            let e = match elem {
                ProjectionElem::Deref => "\"*\"".to_string(),
                ProjectionElem::Field(idx, _) => {
                    let (name, owner) = match pty.ty.kind() {
                        ty::Adt(def, _) => {
                            let v = match pty.variant_index {
                                Some(vi) => def.variant(vi),
                                None => {
                                    if def.is_enum() {
                                        def.variant(rustc_abi::VariantIdx::from_usize(0))
                                    } else {
                                        def.non_enum_variant()
                                    }
                                }
                            };
                            let n = v
                                .fields
                                .get(idx)
                                .map(|f| f.name.to_string())
                                .unwrap_or_else(|| idx.as_usize().to_string());
                            (n, tcx.item_name(def.did()).to_string())
                        }
                        ty::Closure(did, _) | ty::Coroutine(did, _) | ty::CoroutineClosure(did, _) => {
                            let n = did
                                .as_local()
                                .and_then(|l| {
                                    tcx.closure_captures(l).get(idx.as_usize()).map(|c| c.to_symbol().to_string())
                                })
                                .unwrap_or_else(|| idx.as_usize().to_string());
                            (n, "{upvar}".to_string())
                        }
                        ty::Tuple(_) => (idx.as_usize().to_string(), "()".to_string()),
                        _ => (idx.as_usize().to_string(), "?".to_string()),
                    };
                    format!("{{\"f\":{},\"o\":{},\"i\":{}}}", esc(&name), esc(&owner), idx.as_usize())
                }
                ProjectionElem::Downcast(name, vi) => {
                    let n = match name {
                        Some(s) => s.to_string(),
                        None => match pty.ty.kind() {
                            ty::Adt(def, _) => def.variant(vi).name.to_string(),
                            _ => vi.as_usize().to_string(),
                        },
                    };
                    format!("{{\"v\":{}}}", esc(&n))
                }
                ProjectionElem::Index(l) => format!("{{\"ix\":{}}}", l.as_usize()),
                ProjectionElem::ConstantIndex { offset, from_end, .. } => {
                    format!("{{\"cx\":{},\"fe\":{}}}", offset, from_end)
                }
                ProjectionElem::Subslice { .. } => "\"[..]\"".to_string(),
                ProjectionElem::OpaqueCast(_) => "\"oc\"".to_string(),
                ProjectionElem::UnwrapUnsafeBinder(_) => "\"ub\"".to_string(),
            };
            out.push(e);
            pty = pty.projection_ty(tcx, elem);
        }
        jlist(out)
    }

    fn const_json(&self, body_def: DefId, c: &mir::ConstOperand<'tcx>) -> String {
        let tcx = self.tcx;
        let t = c.const_.ty();
        if let ty::FnDef(did, args) = t.kind() {
            return format!(
                "{{\"fn\":{},\"gen\":{}}}",
                esc(&nice_path(tcx, *did)),
                jlist(args.iter().map(|a| esc(&cap(rustc_middle::ty::print::with_no_trimmed_paths!(format!("{}", a)), 160))).collect())
            );
        }
        let env = TypingEnv::post_analysis(tcx, body_def);
        let mut s = format!("{{\"s\":{},\"ty\":{}", esc(&cap(format!("{}", c.const_), 200)), esc(&cap(ty_str(t), 120)));
        if t.is_integral() || t.is_bool() || t.is_char() {
            if let Some(si) = c.const_.try_eval_scalar_int(tcx, env) {
                let size = si.size();
                let v: i128 = if t.is_signed() { si.to_int(size) } else { si.to_uint(size) as i128 };
                let _ = write!(s, ",\"int\":{}", v);
            }
        }
        s.push('}');
        s
    }

    fn op_json(&self, body: &Body<'tcx>, def: DefId, o: &Operand<'tcx>) -> String {
        match o {
            Operand::Copy(p) => format!("{{\"c\":{}}}", self.place_json(body, p)),
            Operand::Move(p) => format!("{{\"m\":{}}}", self.place_json(body, p)),
            Operand::Constant(c) => format!("{{\"k\":{}}}", self.const_json(def, c)),
            other => format!("{{\"k\":{{\"s\":{}}}}}", esc(&format!("{:?}", other))),
        }
    }

    fn rvalue_json(&self, body: &Body<'tcx>, def: DefId, r: &Rvalue<'tcx>) -> String {
        let tcx = self.tcx;
        match r {
            Rvalue::Use(o, ..) => format!("{{\"k\":\"use\",\"o\":{}}}", self.op_json(body, def, o)),
            Rvalue::Repeat(o, _) => format!("{{\"k\":\"repeat\",\"o\":{}}}", self.op_json(body, def, o)),
            Rvalue::Ref(_, bk, p) => {
                let m = match bk {
                    BorrowKind::Shared => "shared",
                    BorrowKind::Fake(_) => "fake",
                    BorrowKind::Mut { .. } => "mut",
                };
                format!("{{\"k\":\"ref\",\"m\":\"{}\",\"p\":{}}}", m, self.place_json(body, p))
            }
            Rvalue::RawPtr(_, p) => format!("{{\"k\":\"rawptr\",\"p\":{}}}", self.place_json(body, p)),
            Rvalue::Cast(ck, o, t) => format!(
                "{{\"k\":\"cast\",\"ck\":{},\"o\":{},\"ty\":{}}}",
                esc(&cap(format!("{:?}", ck), 60)),
                self.op_json(body, def, o),
                esc(&cap(ty_str(*t), 120))
            ),
            Rvalue::BinaryOp(op, ab) => format!(
                "{{\"k\":\"bin\",\"op\":\"{:?}\",\"a\":{},\"b\":{}}}",
                op,
                self.op_json(body, def, &ab.0),
                self.op_json(body, def, &ab.1)
            ),
            Rvalue::UnaryOp(op, a) => {
                format!("{{\"k\":\"un\",\"op\":\"{:?}\",\"a\":{}}}", op, self.op_json(body, def, a))
            }
            Rvalue::Discriminant(p) => {
                // variant names of the scrutinee type, so switch values can be named
                let pt = p.ty(&body.local_decls, tcx).ty;
                let vars = match pt.kind() {
                    ty::Adt(d, _) if d.is_enum() => d
                        .variants()
                        .iter_enumerated()
                        .map(|(vi, v)| {
                            let dv = d.discriminant_for_variant(tcx, vi).val;
                            format!("[{},{}]", dv, esc(&v.name.to_string()))
                        })
                        .collect(),
                    _ => vec![],
                };
                let adt = match pt.kind() {
                    ty::Adt(d, _) => tcx.item_name(d.did()).to_string(),
                    _ => String::new(),
                };
                format!(
                    "{{\"k\":\"discr\",\"p\":{},\"adt\":{},\"vars\":{}}}",
                    self.place_json(body, p),
                    esc(&adt),
                    jlist(vars)
                )
            }
            Rvalue::Aggregate(ak, ops) => {
                let opsj = jlist(ops.iter().map(|o| self.op_json(body, def, o)).collect());
                match &**ak {
                    AggregateKind::Array(_) => format!("{{\"k\":\"agg\",\"ak\":\"array\",\"ops\":{}}}", opsj),
                    AggregateKind::Tuple => format!("{{\"k\":\"agg\",\"ak\":\"tuple\",\"ops\":{}}}", opsj),
                    AggregateKind::Adt(did, vi, _, _, active) => {
                        let ad = tcx.adt_def(*did);
                        let v = ad.variant(*vi);
                        let fields: Vec<String> = match active {
                            Some(f) => vec![esc(&v.fields[*f].name.to_string())],
                            None => v.fields.iter().map(|f| esc(&f.name.to_string())).collect(),
                        };
                        format!(
                            "{{\"k\":\"agg\",\"ak\":\"adt\",\"adt\":{},\"path\":{},\"variant\":{},\"fields\":{},\"ops\":{}}}",
                            esc(&tcx.item_name(*did).to_string()),
                            esc(&nice_path(tcx, *did)),
                            esc(&v.name.to_string()),
                            jlist(fields),
                            opsj
                        )
                    }
                    AggregateKind::Closure(did, _) | AggregateKind::Coroutine(did, _) | AggregateKind::CoroutineClosure(did, _) => {
                        let caps: Vec<String> = did
                            .as_local()
                            .map(|l| tcx.closure_captures(l).iter().map(|c| esc(&c.to_symbol().to_string())).collect())
                            .unwrap_or_default();
                        format!(
                            "{{\"k\":\"agg\",\"ak\":\"closure\",\"path\":{},\"fields\":{},\"ops\":{}}}",
                            esc(&nice_path(tcx, *did)),
                            jlist(caps),
                            opsj
                        )
                    }
                    AggregateKind::RawPtr(..) => format!("{{\"k\":\"agg\",\"ak\":\"rawptr\",\"ops\":{}}}", opsj),
                }
            }
            Rvalue::CopyForDeref(p) => format!("{{\"k\":\"use\",\"o\":{{\"c\":{}}}}}", self.place_json(body, p)),
            other => format!("{{\"k\":\"other\",\"s\":{}}}", esc(&cap(format!("{:?}", other), 200))),
        }
    }

    fn unwind_json(&self, u: &UnwindAction) -> String {
        match u {
            UnwindAction::Cleanup(b) => format!("{}", b.as_usize()),
            _ => "null".to_string(),
        }
    }

    fn term_json(&self, body: &Body<'tcx>, def: DefId, t: &mir::Terminator<'tcx>) -> String {
        let tcx = self.tcx;
        let sp = self.span_json(t.source_info.span);
        match &t.kind {
            TerminatorKind::Goto { target } => format!("{{\"k\":\"goto\",\"t\":{},{}}}", target.as_usize(), sp),
            TerminatorKind::SwitchInt { discr, targets } => {
                let vals: Vec<String> = targets.iter().map(|(v, b)| format!("[{},{}]", v, b.as_usize())).collect();
                format!(
                    "{{\"k\":\"switch\",\"d\":{},\"vals\":{},\"else\":{},{}}}",
                    self.op_json(body, def, discr),
                    jlist(vals),
                    targets.otherwise().as_usize(),
                    sp
                )
            }
            TerminatorKind::Return => format!("{{\"k\":\"ret\",{}}}", sp),
            TerminatorKind::Unreachable => format!("{{\"k\":\"unreachable\",{}}}", sp),
            TerminatorKind::UnwindResume => format!("{{\"k\":\"resume\",{}}}", sp),
            TerminatorKind::UnwindTerminate(_) => format!("{{\"k\":\"terminate\",{}}}", sp),
            TerminatorKind::CoroutineDrop => format!("{{\"k\":\"codrop\",{}}}", sp),
            TerminatorKind::Drop { place, target, unwind, .. } => format!(
                "{{\"k\":\"drop\",\"p\":{},\"t\":{},\"u\":{},{}}}",
                self.place_json(body, place),
                target.as_usize(),
                self.unwind_json(unwind),
                sp
            ),
            TerminatorKind::Call { func, args, destination, target, unwind, fn_span, .. } => {
                let mut s = String::from("{\"k\":\"call\"");
                let fty = func.ty(&body.local_decls, tcx);
                match fty.kind() {
                    ty::FnDef(did, gargs) => {
                        let _ = write!(s, ",\"fn\":{}", esc(&nice_path(tcx, *did)));
                        let gens: Vec<String> = gargs
                            .iter()
                            .map(|a| esc(&cap(rustc_middle::ty::print::with_no_trimmed_paths!(format!("{}", a)), 160)))
                            .collect();
                        let _ = write!(s, ",\"gen\":{}", jlist(gens));
                        // trait method?  record the trait and try to resolve the impl
                        if let Some(tr) = tcx.trait_of_assoc(*did) {
                            let _ = write!(s, ",\"trait\":{}", esc(&nice_path(tcx, tr)));
                        }
                        let env = TypingEnv::post_analysis(tcx, def);
                        let gargs2 = tcx.erase_and_anonymize_regions(*gargs);
                        if !gargs2.has_non_region_infer() {
                            if let Ok(Some(inst)) = Instance::try_resolve(tcx, env, *did, gargs2) {
                                let rd = inst.def_id();
                                if rd != *did {
                                    let _ = write!(s, ",\"res\":{}", esc(&nice_path(tcx, rd)));
                                }
                            }
                        }
                    }
                    _ => {
                        let _ = write!(s, ",\"fnop\":{}", self.op_json(body, def, func));
                        let _ = write!(s, ",\"fnty\":{}", esc(&cap(ty_str(fty), 160)));
                    }
                }
                let a: Vec<String> = args.iter().map(|x| self.op_json(body, def, &x.node)).collect();
                let _ = write!(s, ",\"args\":{}", jlist(a));
                let _ = write!(s, ",\"dest\":{}", self.place_json(body, destination));
                let dty = destination.ty(&body.local_decls, tcx).ty;
                let _ = write!(s, ",\"rty\":{}", esc(&cap(ty_str(dty), 200)));
                let _ = write!(
                    s,
                    ",\"t\":{},\"u\":{}",
                    target.map(|b| b.as_usize().to_string()).unwrap_or("null".into()),
                    self.unwind_json(unwind)
                );
                let _ = write!(s, ",{}", self.span_json(*fn_span));
                s.push('}');
                s
            }
            TerminatorKind::TailCall { func, args, .. } => {
                let a: Vec<String> = args.iter().map(|x| self.op_json(body, def, &x.node)).collect();
                format!(
                    "{{\"k\":\"tailcall\",\"fnop\":{},\"args\":{},{}}}",
                    self.op_json(body, def, func),
                    jlist(a),
                    sp
                )
            }
            TerminatorKind::Assert { cond, expected, msg, target, unwind } => {
                let mk = cap(format!("{:?}", msg), 40);
                let mk = mk.split('(').next().unwrap_or("").to_string();
                format!(
                    "{{\"k\":\"assert\",\"c\":{},\"exp\":{},\"msg\":{},\"t\":{},\"u\":{},{}}}",
                    self.op_json(body, def, cond),
                    expected,
                    esc(&mk),
                    target.as_usize(),
                    self.unwind_json(unwind),
                    sp
                )
            }
            TerminatorKind::Yield { value, resume, resume_arg, drop } => format!(
                "{{\"k\":\"yield\",\"v\":{},\"t\":{},\"ra\":{},\"drop\":{},{}}}",
                self.op_json(body, def, value),
                resume.as_usize(),
                self.place_json(body, resume_arg),
                drop.map(|b| b.as_usize().to_string()).unwrap_or("null".into()),
                sp
            ),
            TerminatorKind::FalseEdge { real_target, imaginary_target } => format!(
                "{{\"k\":\"falseedge\",\"t\":{},\"imag\":{},{}}}",
                real_target.as_usize(),
                imaginary_target.as_usize(),
                sp
            ),
            TerminatorKind::FalseUnwind { real_target, unwind } => format!(
                "{{\"k\":\"falseunwind\",\"t\":{},\"u\":{},{}}}",
                real_target.as_usize(),
                self.unwind_json(unwind),
                sp
            ),
            TerminatorKind::InlineAsm { .. } => format!("{{\"k\":\"asm\",{}}}", sp),
        }
    }

    fn vis_json(&self, did: DefId) -> String {
        let tcx = self.tcx;
        match tcx.visibility(did) {
            ty::Visibility::Public => "\"pub\"".to_string(),
            ty::Visibility::Restricted(m) => {
                if m.is_crate_root() {
                    "\"crate\"".to_string()
                } else {
                    esc(&format!("in:{}", nice_path(tcx, m)))
                }
            }
        }
    }

    fn wanted(&self, ldid: LocalDefId) -> Option<&'static str> {
        let tcx = self.tcx;
        let did = ldid.to_def_id();
        match tcx.def_kind(did) {
            DefKind::Fn | DefKind::AssocFn => Some("fn"),
            DefKind::Closure => {
                if tcx.coroutine_kind(did).is_some() {
                    Some("coroutine")
                } else {
                    Some("closure")
                }
            }
            _ => None,
        }
    }

    fn body_json(&self, ldid: LocalDefId, body: &Body<'tcx>) -> Option<String> {
        let tcx = self.tcx;
        let did = ldid.to_def_id();
        let dk = tcx.def_kind(did);
        let kind = self.wanted(ldid)?;
        let (file, line, end) = self.file_line(body.span);
        let mut s = String::new();
        let _ = write!(
            s,
            "{{\"path\":{},\"kind\":\"{}\",\"file\":{},\"line\":{},\"end\":{},\"exp\":{},\"argc\":{}",
            esc(&nice_path(tcx, did)),
            kind,
            esc(&file),
            line,
            end,
            body.span.from_expansion(),
            body.arg_count
        );
        if matches!(dk, DefKind::Fn | DefKind::AssocFn) {
            let _ = write!(s, ",\"vis\":{}", self.vis_json(did));
            let _ = write!(s, ",\"async\":{}", tcx.asyncness(did).is_async());
            if let Some(tr) = tcx.trait_of_assoc(did) {
                let _ = write!(s, ",\"trait_decl\":{}", esc(&nice_path(tcx, tr)));
            }
            if let Some(ti) = tcx.trait_item_of(did) {
                let _ = write!(s, ",\"implements\":{}", esc(&nice_path(tcx, ti)));
            }
        }
        if let Some(p) = tcx.opt_parent(did) {
            let _ = write!(s, ",\"parent\":{}", esc(&nice_path(tcx, p)));
        }
        // locals
        let locals: Vec<String> = body
            .local_decls
            .iter()
            .map(|d| {
                format!(
                    "{{\"ty\":{},\"u\":{}}}",
                    esc(&cap(ty_str(d.ty), 160)),
                    d.is_user_variable()
                )
            })
            .collect();
        let _ = write!(s, ",\"locals\":{}", jlist(locals));
        // debug info
        let dbg: Vec<String> = body
            .var_debug_info
            .iter()
            .map(|v| {
                let val = match &v.value {
                    mir::VarDebugInfoContents::Place(p) => format!("\"p\":{}", self.place_json(body, p)),
                    mir::VarDebugInfoContents::Const(c) => format!("\"k\":{}", self.const_json(did, c)),
                };
                format!(
                    "{{\"n\":{},{},\"arg\":{}}}",
                    esc(&v.name.to_string()),
                    val,
                    v.argument_index.map(|i| i.to_string()).unwrap_or("null".into())
                )
            })
            .collect();
        let _ = write!(s, ",\"debug\":{}", jlist(dbg));
        if kind != "fn" {
            let caps: Vec<String> = tcx
                .closure_captures(ldid)
                .iter()
                .map(|c| {
                    format!(
                        "{{\"sym\":{},\"var\":{},\"str\":{},\"byref\":{}}}",
                        esc(&c.to_symbol().to_string()),
                        esc(&c.var_ident.name.to_string()),
                        esc(&c.to_string(tcx)),
                        c.is_by_ref()
                    )
                })
                .collect();
            let _ = write!(s, ",\"captures\":{}", jlist(caps));
        }
        // blocks
        let mut blocks = Vec::new();
        for (_bb, data) in body.basic_blocks.iter_enumerated() {
            let mut stmts = Vec::new();
            for st in &data.statements {
                let sp = self.span_json(st.source_info.span);
                match &st.kind {
                    StatementKind::Assign(b) => {
                        let (p, r) = &**b;
                        stmts.push(format!(
                            "{{\"k\":\"assign\",\"p\":{},\"r\":{},{}}}",
                            self.place_json(body, p),
                            self.rvalue_json(body, did, r),
                            sp
                        ));
                    }
                    StatementKind::SetDiscriminant { place, variant_index } => {
                        stmts.push(format!(
                            "{{\"k\":\"setdiscr\",\"p\":{},\"v\":{},{}}}",
                            self.place_json(body, place),
                            variant_index.as_usize(),
                            sp
                        ));
                    }
                    StatementKind::PlaceMention(p) => {
                        stmts.push(format!("{{\"k\":\"mention\",\"p\":{},{}}}", self.place_json(body, p), sp));
                    }
                    StatementKind::StorageDead(l) => {
                        stmts.push(format!("{{\"k\":\"dead\",\"loc\":{}}}", l.as_usize()));
                    }
                    _ => {}
                }
            }
            let term = self.term_json(body, did, data.terminator());
            blocks.push(format!(
                "{{\"s\":{},\"t\":{},\"cleanup\":{}}}",
                jlist(stmts),
                term,
                data.is_cleanup
            ));
        }
        let _ = write!(s, ",\"blocks\":{}", jlist(blocks));
        s.push('}');
        Some(s)
    }

    fn adts_json(&self) -> String {
        let tcx = self.tcx;
        let mut out = Vec::new();
        for ldid in tcx.hir_crate_items(()).definitions() {
            let did = ldid.to_def_id();
            match tcx.def_kind(did) {
                DefKind::Struct | DefKind::Enum | DefKind::Union => {}
                _ => continue,
            }
            let ad = tcx.adt_def(did);
            let (file, line, _) = self.file_line(tcx.def_span(did));
            let mut vars = Vec::new();
            for v in ad.variants().iter() {
                let fields: Vec<String> = v
                    .fields
                    .iter()
                    .map(|f| {
                        format!(
                            "{{\"n\":{},\"ty\":{},\"vis\":{}}}",
                            esc(&f.name.to_string()),
                            esc(&cap(ty_str(tcx.type_of(f.did).instantiate_identity().skip_norm_wip()), 200)),
                            self.vis_json(f.did)
                        )
                    })
                    .collect();
                vars.push(format!("{{\"n\":{},\"fields\":{}}}", esc(&v.name.to_string()), jlist(fields)));
            }
            out.push(format!(
                "{{\"path\":{},\"name\":{},\"enum\":{},\"vis\":{},\"file\":{},\"line\":{},\"variants\":{}}}",
                esc(&nice_path(tcx, did)),
                esc(&tcx.item_name(did).to_string()),
                ad.is_enum(),
                self.vis_json(did),
                esc(&file),
                line,
                jlist(vars)
            ));
        }
        jlist(out)
    }

    fn impls_json(&self) -> String {
        let tcx = self.tcx;
        let mut out = Vec::new();
        for ldid in tcx.hir_crate_items(()).definitions() {
            let did = ldid.to_def_id();
            match tcx.def_kind(did) {
                DefKind::Impl { .. } => {
                    let self_ty = tcx.type_of(did).instantiate_identity().skip_norm_wip();
                    let tr = if tcx.impl_opt_trait_ref(did).is_some() {
                        esc(&nice_path(tcx, tcx.impl_trait_id(did)))
                    } else {
                        "null".to_string()
                    };
                    let items: Vec<String> = tcx
                        .associated_items(did)
                        .in_definition_order()
                        .map(|it| {
                            format!(
                                "{{\"path\":{},\"name\":{},\"fn\":{},\"vis\":{}}}",
                                esc(&nice_path(tcx, it.def_id)),
                                esc(&it.name().to_string()),
                                it.is_fn(),
                                self.vis_json(it.def_id)
                            )
                        })
                        .collect();
                    out.push(format!(
                        "{{\"path\":{},\"self\":{},\"self_full\":{},\"trait\":{},\"items\":{}}}",
                        esc(&nice_path(tcx, did)),
                        esc(&short_ty(tcx, self_ty)),
                        esc(&cap(ty_str(self_ty), 200)),
                        tr,
                        jlist(items)
                    ));
                }
                DefKind::Trait => {
                    let items: Vec<String> = tcx
                        .associated_items(did)
                        .in_definition_order()
                        .map(|it| {
                            format!(
                                "{{\"path\":{},\"name\":{},\"fn\":{},\"default\":{}}}",
                                esc(&nice_path(tcx, it.def_id)),
                                esc(&it.name().to_string()),
                                it.is_fn(),
                                it.defaultness(tcx).has_value()
                            )
                        })
                        .collect();
                    out.push(format!(
                        "{{\"path\":{},\"self\":null,\"trait_decl\":true,\"trait\":{},\"items\":{}}}",
                        esc(&nice_path(tcx, did)),
                        esc(&nice_path(tcx, did)),
                        jlist(items)
                    ));
                }
                _ => {}
            }
        }
        jlist(out)
    }
}

struct Cb {
    features: Vec<String>,
    is_test: bool,
}

impl Callbacks for Cb {
    fn after_expansion<'tcx>(&mut self, _c: &rustc_interface::interface::Compiler, tcx: TyCtxt<'tcx>) -> Compilation {
        let name = tcx.crate_name(LOCAL_CRATE).to_string();
        let wanted = std::env::var("AKD_LINT_CRATES").unwrap_or_else(|_| "akd,akd_core".to_string());
        if !wanted.split(',').any(|w| w == name) {
            return Compilation::Continue;
        }
        let outdir = match std::env::var("AKD_LINT_OUT") {
            Ok(d) => d,
            Err(_) => return Compilation::Continue,
        };
        let cx = Cx { tcx };
        // Phase 1: clone every mir_built body before any query that may run
        // borrowck (opaque-type reveal in post-analysis typing envs steals them).
        let mut cloned: Vec<(LocalDefId, Body<'tcx>)> = Vec::new();
        for ldid in tcx.hir_body_owners() {
            if cx.wanted(ldid).is_some() {
                let b = tcx.mir_built(ldid).borrow().clone();
                cloned.push((ldid, b));
            }
        }
        let mut bodies = Vec::new();
        for (ldid, b) in &cloned {
            if let Some(j) = cx.body_json(*ldid, b) {
                bodies.push(j);
            }
        }
        let run_id = std::env::var("AKD_LINT_RUN_ID").unwrap_or_default();
        let feats: Vec<String> = self.features.iter().map(|f| esc(f)).collect();
        let doc = format!(
            "{{\"crate\":{},\"run_id\":{},\"test\":{},\"features\":{},\"adts\":{},\"impls\":{},\"bodies\":{}}}\n",
            esc(&name),
            esc(&run_id),
            self.is_test,
            jlist(feats),
            cx.adts_json(),
            cx.impls_json(),
            jlist(bodies)
        );
        let suffix = if self.is_test { "-test" } else { "" };
        let path = format!("{}/{}{}-{}.json", outdir, name, suffix, std::process::id());
        let tmp = format!("{}.tmp", path);
        std::fs::write(&tmp, doc).expect("akd-lint: cannot write facts");
        std::fs::rename(&tmp, &path).expect("akd-lint: cannot rename facts");
        Compilation::Continue
    }
}

fn main() {
    let mut args: Vec<String> = std::env::args().collect();
    // RUSTC_WORKSPACE_WRAPPER: argv[1] is the real rustc path; drop it.
    if args.len() > 1 && (args[1].ends_with("rustc") || args[1].contains("/rustc")) {
        args.remove(1);
    }
    let mut features = Vec::new();
    let mut is_test = false;
    let mut i = 0;
    while i < args.len() {
        if args[i] == "--cfg" && i + 1 < args.len() {
            if let Some(f) = args[i + 1].strip_prefix("feature=") {
                features.push(f.trim_matches('"').to_string());
            }
        }
        if args[i] == "--test" {
            is_test = true;
        }
        i += 1;
    }
    let mut cb = Cb { features, is_test };
    let code = rustc_driver::catch_with_exit_code(move || rustc_driver::run_compiler(&args, &mut cb));
    std::process::exit(if code == std::process::ExitCode::SUCCESS { 0 } else { 1 });
}
