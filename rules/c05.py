"""C05 — tree membership / non-membership proofs: the verifier omits no check.

Decides (structural, necessary conditions): the obligation table of
`verify_membership` and `verify_nonmembership`: every listed rejecting guard
exists with the listed operands, lies on every path to Ok (must-pass-through
on the MIR CFG), the membership sub-proof's Result is propagated, and every
field of the proof types reaches a guard (RF-COVER).  Does not decide
completeness of honest proof generation or collision resistance."""
from analysis.rulelib import *
from analysis.mir import leaves, calls_in, show

EXPLANATION = __doc__
FLOOR = 16
VM = 'akd_core::verify::base::verify_membership'
VN = 'akd_core::verify::base::verify_nonmembership'
CH = 'proof.longest_prefix_children'


def norm_idx(p):
    import re
    return re.sub(r'\[[^\]]*\]', '[]', p)


def run(ctx):
    ctx.count('functions_analysed', 3)
    membership(ctx)
    nonmembership(ctx)
    generation(ctx)


def generation(ctx):
    """prover/verifier agreement for non-membership proofs (completeness side, structure only): the server's proof
    literal is {label: the queried label, longest_prefix: label of the node found by the LCP walk for that label,
    children: [left, right] of that node in this order — present child as (its label, node_to_azks_value(child,
    WithLeafEpoch)), absent child as (empty_label, empty_node_hash) —, membership proof: the one returned by the
    same walk}; these are exactly the relations verify_nonmembership checks (O3–O6)."""
    prog = ctx.prog
    b = prog.fn_and_inner('akd::append_only_zks::Azks::get_non_membership_proof')
    where = '%s:%s' % (b.file, b.line)
    dirs = [arg(c, 2) for ev, c in find_events(b, 'TreeNode::get_child_node')]   # (evaluated first: expression memo is depth-bounded)
    lits = [e for pos, e in ok_aggregates(b) if e[0] == 'agg' and e[1] == 'NonMembershipProof']
    if len(lits) != 1:
        ctx.ob('C05.GEN.literal', 'RF-SIB', False, b.path, where, 'get_non_membership_proof does not return one NonMembershipProof literal')
        return
    f = dict(lits[0][3])
    walkc = lambda e: [c for c in calls_in(e, 'get_lcp_node_label_with_membership_proof') if access_path(arg(c, 2)) == 'label']
    ok = access_path(f['label']) == 'label'
    ctx.ob('C05.GEN.label', 'RF-SIB', ok, b.path, where, 'proof.label is the queried label' if ok else 'proof.label is %s' % show(f['label'])[:80])
    lp = f['longest_prefix']
    fetch = [c for c in calls_in(lp, 'get_from_storage')]
    ok = split_fields(lp)[1].endswith('label') and len(fetch) == 1 and bool(walkc(arg(fetch[0], 1))) and show(arg(fetch[0], 1)).rstrip('}').endswith('.0') \
        and has_call(arg(fetch[0], 2), 'get_latest_epoch')
    ctx.ob('C05.GEN.anchor', 'RF-SIB', ok, b.path, where,
           'longest_prefix is the label of the node returned by the LCP walk for the queried label, fetched as of the snapshot epoch' if ok else
           'longest_prefix is not the LCP walk\'s node for the queried label: %s' % show(lp)[:160])
    mp = f['longest_prefix_membership_proof']
    ok = bool(walkc(mp)) and show(mp).endswith('.1')
    ctx.ob('C05.GEN.membership', 'RF-SIB', ok, b.path, where, 'the anchor\'s membership proof comes from the same walk' if ok else
           'anchor membership proof is %s' % show(mp)[:120])
    # children: index i and direction both come from enumerate([Left, Right])
    arr = ('Direction::Left', 'Direction::Right')
    assigns = []
    for pos, st in b.stmts():
        if st.get('k') == 'assign' and len(st['p']) > 1 and any(isinstance(x, dict) and 'ix' in x for x in st['p'][1:]):
            ix = [x for x in st['p'][1:] if isinstance(x, dict) and 'ix' in x][0]['ix']
            assigns.append((pos, b._expr_local(ix, (), pos, 0), b._expr_rvalue(st['r'], pos, 0)))

    def from_enum(e, comp):
        t = show(e)
        return t.endswith(comp) and 'enumerate' in t and t.index(arr[0]) < t.index(arr[1]) if arr[0] in t and arr[1] in t else False
    present = [rv for pos, ix, rv in assigns if rv[0] == 'agg' and rv[1] == 'AzksElement' and has_call(dict(rv[3])['value'], 'node_to_azks_value')]
    absent = [rv for pos, ix, rv in assigns if rv[0] == 'agg' and rv[1] == 'AzksElement' and has_call(dict(rv[3])['value'], 'empty_node_hash')
              and has_call(dict(rv[3])['label'], 'empty_label')]
    okp = False
    if present:
        pv = dict(present[0][3])
        nv = next(calls_in(pv['value'], 'node_to_azks_value'))
        okp = 'WithLeafEpoch' in show(arg(nv, 1)) and split_fields(pv['label'])[1].endswith('label') and \
            has_call(pv['label'], 'get_from_storage') and has_call(arg(nv, 0), 'get_from_storage')
    ok = len(assigns) >= 2 and all(from_enum(ix, '.0') for pos, ix, rv in assigns) and len(dirs) == 1 and from_enum(dirs[0], '.1') and okp and bool(absent)
    ctx.ob('C05.GEN.children', 'RF-SIB', ok, b.path, where,
           'children[i] for (i, dir) in [Left, Right]: present = (child label, node_to_azks_value(child, WithLeafEpoch)), absent = (empty_label, empty_node_hash)'
           if ok else 'the children of the anchor are not emitted as [left, right] with the verifier\'s value/label conventions (assignments=%d present-ok=%s absent=%d dirs=%s)'
           % (len(assigns), okp, len(absent), [show(d)[:60] for d in dirs]), key='RF-SIB|C05.GEN.children')


def membership(ctx):
    prog = ctx.prog
    vm = prog.one(VM)

    # ---- verify_membership
    fold = {}

    def m1(fc):
        if fc[0] != 'rel' or fc[1] != 'ne':
            return False
        a, b = fc[2], fc[3]
        for x, y in ((a, b), (b, a)):
            if has_call(x, 'compute_root_hash_from_val') and has_leaf(y, 'root_hash'):
                fold['e'] = x
                return True
        return False
    require_guard(ctx, vm, 'C05.M1', 'RF-GUARD', m1,
                  'reject unless compute_root_hash_from_val(fold over sibling proofs) == root_hash')
    e = fold.get('e')
    need = ['proof.hash_val', 'proof.label', 'proof.sibling_proofs[*].siblings[0].value',
            'proof.sibling_proofs[*].siblings[0].label', 'proof.sibling_proofs[*].label']
    if e is not None:
        ls = {norm_idx(l) for l in leaves(e)}
        for n in need:
            ok = norm_idx(n) in ls
            ctx.ob('C05.M2[%s]' % n, 'RF-COVER', ok, VM, '%s:%s' % (vm.file, vm.line),
                   'root-hash fold depends on %s' % n if ok else 'the value compared with root_hash does not depend on %s' % n)
        # direction: a branch on sibling_proof.direction selects the argument order of the parent hash
        dirsw = [g for g in vm.guards() if g['cond'][0] == 'discr' and has_leaf(g['cond'][1], 'proof.sibling_proofs') and
                 'direction' in show(g['cond'][1])]
        ph = list(calls_in(e, 'compute_parent_hash_from_children'))
        swapped = False
        for c in ph:
            a0, a2 = arg(c, 0), arg(c, 2)
            if a0[0] == 'phi' and a2[0] == 'phi' and has_leaf(a0, 'proof.sibling_proofs') and has_leaf(a2, 'proof.sibling_proofs') \
                    and has_leaf(a0, 'proof.hash_val') and has_leaf(a2, 'proof.hash_val'):
                swapped = True
        ctx.ob('C05.M2[direction]', 'RF-COVER', bool(dirsw) and swapped, VM, '%s:%s' % (vm.file, vm.line),
               'branch on sibling_proof.direction selects left/right operand order of the parent hash'
               if dirsw and swapped else 'sibling_proof.direction no longer selects the operand order of compute_parent_hash_from_children')



def nonmembership(ctx):
    prog = ctx.prog
    vn = prog.one(VN)
    for i in (0, 1):
        require_guard(ctx, vn, 'C05.O1[%d]' % i, 'RF-GUARD',
                      lambda fc, i=i: fc[0] == 'rel' and fc[1] == 'eq' and
                      {access_path(fc[2]), access_path(fc[3])} == {'proof.label', '%s[%d].label' % (CH, i)},
                      'reject label == children[%d].label' % i)
    require_guard(ctx, vn, 'C05.O2', 'RF-GUARD',
                  lambda fc: fc[0] == 'pred' and fc[1].endswith('is_prefix_of') and fc[3] is False and
                  access_path(fc[2][0]) == 'proof.longest_prefix' and access_path(fc[2][1]) == 'proof.label',
                  'reject unless longest_prefix.is_prefix_of(label)')

    def lcp_expr(x):
        cs = list(calls_in(x, 'get_longest_common_prefix'))
        return any(has_leaf(c, CH + '[0].label') and has_leaf(c, CH + '[1].label') for c in cs)

    require_guard(ctx, vn, 'C05.O3', 'RF-GUARD',
                  lambda fc: fc[0] == 'rel' and fc[1] == 'ne' and any(
                      access_path(x) == 'proof.longest_prefix' and lcp_expr(y) for x, y in ((fc[2], fc[3]), (fc[3], fc[2]))),
                  'reject longest_prefix != lcp(children[0].label, children[1].label)')
    require_guard(ctx, vn, 'C05.O4', 'RF-GUARD',
                  lambda fc: fc[0] == 'rel' and fc[1] == 'ne' and any(
                      access_path(x) == 'proof.longest_prefix_membership_proof.label' and lcp_expr(y)
                      for x, y in ((fc[2], fc[3]), (fc[3], fc[2]))),
                  'reject lcp(children) != membership_proof.label')

    def parent_hash(x):
        for c in calls_in(x, 'compute_parent_hash_from_children'):
            if (access_path(arg(c, 0)) == CH + '[0].value' and has_leaf(arg(c, 1), CH + '[0].label') and
                    access_path(arg(c, 2)) == CH + '[1].value' and has_leaf(arg(c, 3), CH + '[1].label')):
                return True
        return False
    require_guard(ctx, vn, 'C05.O5', 'RF-GUARD',
                  lambda fc: fc[0] == 'rel' and fc[1] == 'ne' and any(
                      access_path(x) == 'proof.longest_prefix_membership_proof.hash_val' and parent_hash(y)
                      for x, y in ((fc[2], fc[3]), (fc[3], fc[2]))),
                  'reject parent_hash(children[0], children[1]) != membership_proof.hash_val')
    require_call(ctx, vn, 'C05.O6', 'RF-BIND', 'verify_membership',
                 lambda c: True if (has_leaf(arg(c, 0), 'root_hash') and
                                    access_path(arg(c, 1)) == 'proof.longest_prefix_membership_proof')
                 else 'arguments are not (root_hash, proof.longest_prefix_membership_proof)',
                 'membership of the anchor node is verified against root_hash and propagated')
    # O7: the anchor is the deepest matching node: no child label is a prefix of the label
    # the only legitimate side condition: `children[i].label != empty_label()` on that very child (NOT any comparison
    # that merely mentions the children, e.g. `lcp(children) == empty_label()`, which lies on every path and would make
    # the must-pass-through test vacuous — seeded change C06-r1-a)
    def is_side(fc):
        if fc[0] != 'rel' or fc[1] not in ('eq', 'ne'):
            return False
        for x, y in ((fc[2], fc[3]), (fc[3], fc[2])):
            if y[0] == 'call' and has_call(y, 'empty_label') and not y[3] and \
                    norm_idx(access_path(x) or '') == CH + '[].label':
                return True
        return False
    side = side_edges(vn, lambda fc: is_side(fc) and fc[1] == 'eq')
    for i in (0, 1):
        def o7(fc, i=i):
            if fc[0] != 'pred' or not fc[1].endswith('is_prefix_of') or fc[3] is not True:
                return False
            a, b = fc[2][0], fc[2][1]
            pa = access_path(a)
            return pa in ('%s[%d].label' % (CH, i), CH + '[*].label') and access_path(b) == 'proof.label'
        require_guard(ctx, vn, 'C05.O7[%d]' % i, 'RF-GUARD', o7,
                      'reject when children[%d].label (other than the empty label) is a prefix of label '
                      '(anchor must be the deepest matching node)' % i,
                      bypass_edges=side, per_iteration=True)

    # ---- RF-COVER over NonMembershipProof: every field reaches a guard or a checked call
    lv = guard_leaves(vn)
    lv = {norm_idx(l) for l in lv}
    fields = ['proof.label', 'proof.longest_prefix', CH + '[].label', CH + '[].value', 'proof.longest_prefix_membership_proof']
    adt = [a for a in prog.adts_by_name.get('NonMembershipProof', []) if a['path'].startswith('akd_core::types')]
    declared = [f['n'] for a in adt for v in a['variants'] for f in v['fields']]
    ctx.ob('C05.COVER.decl', 'RF-COVER', sorted(declared) == ['label', 'longest_prefix', 'longest_prefix_children', 'longest_prefix_membership_proof'],
           'akd_core::NonMembershipProof', None,
           'NonMembershipProof fields = %s (a new field must be added to the obligation table)' % declared)
    for f in fields:
        ok = any(l == f or l.startswith(f + '.') or l.startswith(f + '[') for l in lv)
        ctx.ob('C05.COVER[%s]' % f, 'RF-COVER', ok, VN, '%s:%s' % (vn.file, vn.line),
               'field %s reaches a rejecting guard' % f if ok else 'field %s is accepted without reaching any rejecting guard' % f)
