"""C09 — an accepted audit proof implies nothing committed earlier was removed
or altered: obligation table of audit_verify / verify_consecutive_append_only
/ verify_append_only_hash.

Decides: the two length guards; every consecutive pair of hashes is checked
with proofs[i], hashes[i], hashes[i+1], epochs[i]+1; the start tree is exactly
`unchanged_nodes`, the end tree is `unchanged_nodes ∪ inserted` with inserted
values hashed with the end epoch; both root comparisons reject; the node set
is validated prefix-free (no label equal to or a prefix of another) before the
end tree is built — otherwise an inserted label can shadow an unchanged
subtree.  Does not decide that these checks imply append-only-ness (collision
resistance argument)."""
from analysis.rulelib import *
from analysis.mir import leaves, calls_in, show, walk, short

EXPLANATION = __doc__
FLOOR = 11
A = 'akd::auditor::'


def run(ctx):
    prog = ctx.prog
    av = prog.fn_and_inner(A + 'audit_verify')

    def lens(e):
        return e[0] == 'call' and call_is(e, 'Vec::len') and access_path(arg(e, 0))
    require_guard(ctx, av, 'C09.A1', 'RF-GUARD',
                  lambda fc: fc[0] == 'rel' and fc[1] == 'ne' and any(
                      x[0] == 'bin' and x[1] == 'Add' and lens(x[2]) == 'proof.epochs' and is_const(x[3], 1) and lens(y) == 'hashes'
                      for x, y in ((fc[2], fc[3]), (fc[3], fc[2]))), 'reject #epochs + 1 != #hashes')
    require_guard(ctx, av, 'C09.A2', 'RF-GUARD',
                  lambda fc: fc[0] == 'rel' and fc[1] == 'ne' and {lens(fc[2]), lens(fc[3])} == {'proof.epochs', 'proof.proofs'},
                  'reject #epochs != #proofs')

    def pairs(c):
        def idx(e, coll, off):
            if not (e[0] == 'call' and call_is(e, 'index') and access_path(arg(e, 0)) == coll):
                return False
            i = arg(e, 1)
            if off:
                if not (i[0] == 'bin' and i[1] == 'Add' and is_const(i[3], off)):
                    return False
                i = i[2]
            rng = i[1] if i[0] == 'elem' else None
            return bool(rng) and rng[0] == 'agg' and rng[1] == 'Range' and is_const(dict(rng[3])['start'], 0) and \
                spec_match(dict(rng[3])['end'], ('bin', 'Sub', ('call', 'Vec::len', ['hashes']), ('const', 1)))
        e3 = arg(c, 3)
        if not idx(arg(c, 0), 'proof.proofs', 0):
            return 'proof argument is not proof.proofs[i] for i in 0..hashes.len()-1'
        if not idx(arg(c, 1), 'hashes', 0) or not idx(arg(c, 2), 'hashes', 1):
            return 'hash arguments are not hashes[i], hashes[i+1]'
        if not (e3[0] == 'bin' and e3[1] == 'Add' and is_const(e3[3], 1) and idx(e3[2], 'proof.epochs', 0)):
            return 'end epoch is not proof.epochs[i] + 1'
        return True
    require_call(ctx, av, 'C09.A3', 'RF-BIND', 'verify_consecutive_append_only', pairs,
                 'every consecutive hash pair is verified with its own proof and epoch', per_iteration=True)

    vc = prog.fn_and_inner(A + 'verify_consecutive_append_only')
    none = ('variant', 'Option', 'None')
    v1 = require_call(ctx, vc, 'C09.V1', 'RF-BIND', 'verify_append_only_hash', bind(['proof.unchanged_nodes', 'start_hash', none]),
                      'start tree = exactly the unchanged nodes, compared with the start hash')

    def endtree(c):
        n, h, ep = arg(c, 0), arg(c, 1), arg(c, 2)
        if access_path(h) != 'end_hash':
            return 'second tree is not compared with end_hash'
        if not (ep[0] == 'agg' and ep[2] == 'Some' and spec_match(ep[3][0][1], ('bin', 'Sub', 'end_epoch', ('const', 1)))):
            return 'latest_epoch of the rebuilt tree is not Some(end_epoch - 1)'
        if n[0] != 'mutby' or access_path(n[2]) != 'proof.unchanged_nodes':
            return 'end tree is not built from proof.unchanged_nodes'
        ext = [m for m in n[1] if call_is(m, 'extend')]
        if len(ext) != 1 or len(n[1]) != 1:
            return 'end tree node list is modified by %s' % [show(m)[:60] for m in n[1]]
        src = arg(ext[0], 1)
        if not (src[0] == 'call' and call_is(src, 'map') and access_path(arg(src, 0)) == 'proof.inserted' and arg(src, 1)[0] == 'closure'):
            return 'inserted nodes are not proof.inserted mapped through the leaf-hash closure'
        clo = ctx.prog.bodies.get(arg(src, 1)[1])
        r = result_expr(clo) if clo else ('unk',)
        hc = list(calls_in(r, 'hash_leaf_with_commitment'))
        if not (hc and has_leaf(arg(hc[0], 1), 'end_epoch') and has_leaf(arg(hc[0], 0), 'x.value')):
            return 'inserted leaf values are not hash_leaf_with_commitment(value, end_epoch)'
        return True
    v2 = require_call(ctx, vc, 'C09.V2', 'RF-BIND', 'verify_append_only_hash', endtree,
                      'end tree = unchanged ∪ inserted (values hashed with the end epoch), compared with the end hash')

    # O-PF: prefix-free validation of the union before the end tree is built
    found = None
    for g in vc.guards():
        cond = g['cond']
        if cond[0] != 'discr' or not g['fail']:
            continue
        for c in strip_result(cond[1]):
            callee = prog.bodies.get(c[1]) or prog.bodies.get(c[2] or '')
            if callee is None or call_is(c, 'verify_append_only_hash'):
                continue
            a = [x for x in c[3] if has_leaf(x, 'proof.unchanged_nodes') and has_leaf(x, 'proof.inserted')]
            if a and prefix_guard(prog, prog.fn_and_inner(callee.path)):
                found = (g, c)
    inline = [g for g in vc.guards() if g['fail'] and any(
        fc[0] == 'pred' and fc[1].endswith('is_prefix_of') and fc[3] is True and has_leaf(fc[2][0], 'proof.inserted')
        for fc in failconds(vc, g))]
    ok = False
    where = '%s:%s' % (vc.file, vc.line)
    if found:
        g, c = found
        ks = vc.exits((0, 0), avoid_blocks=[g['block']])
        ok = not (ks - {'Err', 'Diverge'})
        where = '%s:%s' % (vc.file, g['line'])
        if ok and v2:
            ok = edge_dominates(vc, (g['block'], g['pass'][0][1]), v2[0]['call'][4])
    elif inline:
        ok = True
    ctx.ob('C09.OPF', 'RF-GUARD', ok, vc.path, where,
           'labels of unchanged ∪ inserted are validated prefix-free before the end tree is built' if ok else
           'no rejecting check that the labels of unchanged_nodes ∪ inserted are prefix-free: an inserted label extending an '
           '"unchanged" node\'s label silently replaces that subtree when the tree is rebuilt', key='RF-GUARD|C09.OPF')

    vh = prog.fn_and_inner(A + 'verify_append_only_hash')

    def roots(fc):
        if fc[0] != 'rel' or fc[1] != 'ne':
            return False
        for x, y in ((fc[2], fc[3]), (fc[3], fc[2])):
            if access_path(y) == 'expected_hash' and has_call(x, 'get_root_hash'):
                ins = list(calls_in(x, 'batch_insert_nodes'))
                if ins and access_path(arg(ins[0], 2)) == 'nodes' and spec_match(arg(ins[0], 3), ('variant', 'InsertMode', 'Auditor')):
                    return True
        return False
    require_guard(ctx, vh, 'C09.H1', 'RF-GUARD', roots, 'reject root hash of the tree rebuilt from `nodes` != expected hash')
    require_call(ctx, vh, 'C09.H2', 'RF-BIND', 'batch_insert_nodes',
                 lambda c: True if access_path(arg(c, 2)) == 'nodes' else 'inserted set is not `nodes`', 'all given nodes are inserted, errors propagated')
    # the scratch tree's epoch is only ever set from the latest_epoch parameter
    wr = [(pos, s) for pos, s in vh.stmts() if s.get('k') == 'assign' and any(isinstance(el, dict) and el.get('f') == 'latest_epoch' for el in s['p'][1:])]
    ok = all(access_path(vh._expr_rvalue(s['r'], pos, 0)) in ('latest_epoch.0', 'latest_epoch') or
             has_leaf(vh._expr_rvalue(s['r'], pos, 0), 'latest_epoch') for pos, s in wr)
    ctx.ob('C09.H3', 'RF-OWN', ok and len(wr) == 1, vh.path, '%s:%s' % (vh.file, vh.line),
           'scratch tree epoch is set only from the latest_epoch parameter' if ok else 'scratch tree epoch written from something else')
    for adtn, flds in (('AppendOnlyProof', ['proofs', 'epochs']), ('SingleAppendOnlyProof', ['inserted', 'unchanged_nodes'])):
        adt = [a for a in prog.adts_by_name.get(adtn, []) if a['path'].startswith('akd_core::types')]
        declared = sorted(f['n'] for a in adt for v in a['variants'] for f in v['fields'])
        ctx.ob('C09.COVER.decl[%s]' % adtn, 'RF-COVER', declared == sorted(flds), 'akd_core::types::' + adtn, None,
               '%s fields = %s (each bound by an obligation above)' % (adtn, declared))


def prefix_guard(prog, body):
    """body rejects when one element label is a prefix of (or equal to) another.
    Accepted forms: an all-pairs scan (guard nested in two iterator loops), or an
    adjacent-pair scan over `windows(2)` of a list sorted by (label_val, label_len)
    — the order in which a prefix is immediately followed by a label it prefixes
    (sorting by NodeLabel's own Ord, which is length-first, does not have that property)."""
    for g in body.guards():
        if not g['fail']:
            continue
        for fc in failconds(body, g):
            if fc[0] == 'pred' and (fc[1].endswith('is_prefix_of') or fc[1].endswith('get_prefix_ordering')) and fc[3] is True:
                if not body.in_loop(g['block']):
                    continue
                if loop_guard_bypass(body, [g]) is not None:
                    continue
                a0 = fc[2][0]
                win = [x for x in walk(a0) if x[0] == 'call' and call_is(x, 'windows')]
                if win:
                    lst = arg(win[0], 0)
                    sorts = [m for x in walk(lst) if x[0] == 'mutby' for m in x[1] if (short(m[2] or m[1]) or '').split('::')[-1].startswith('sort')]
                    for m in sorts:
                        clo = arg(m, 1)
                        cb = prog.bodies.get(clo[1]) if clo and clo[0] == 'closure' else None
                        if cb is None:
                            continue
                        r = result_expr(cb)
                        if r[0] == 'call' and call_is(r, 'cmp') and all(
                                x[0] == 'tuple' and [split_fields(y)[1] for y in x[1]] == ['label_val', 'label_len'] for x in r[3][:2]) and \
                                split_fields(r[3][0][1][0])[0] != split_fields(r[3][1][1][0])[0]:
                            return True
                    continue
                # all-pairs: two enclosing iterator loops
                hdrs = [pos[0] for pos, t in body.call_sites() if (short(t.get('res') or t.get('fn')) or '').endswith('::next') and
                        body.blk_dominates(pos[0], g['block']) and pos[0] in body._reach_from(g['block'])]
                if len(hdrs) >= 2:
                    return True
    return False
