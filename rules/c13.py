"""C13 — every answer names a published epoch hash and verifies against it, or
errors (structural part).

Decides: each request entry point (lookup, batch_lookup, key_history, audit,
get_epoch_hash, and the same through ReadOnlyDirectory) fetches the epoch
record exactly once along every call-graph path and generates proofs on that
snapshot, returning (snapshot.latest_epoch, root hash of the snapshot); the
as-of-epoch node selection is checked; the change poller flushes the cache and
re-fetches the epoch record under the write lock before notifying, comparing
an uncached read; flush clears all record-holding cache state; read requests
reach no storage write; no Result on the request paths is discarded.  Does not
decide behaviour under actual interleavings."""
from analysis.rulelib import *
from analysis.mir import show, short, calls_in
from rules import dir_shared as ds, storage_shared as ss, c11
EXPLANATION = __doc__
FLOOR = 28
EXC = {('akd::directory::Directory::publish', 'StorageManager::rollback_transaction'):
       'rollback after a failure that is itself returned to the caller'}


def run(ctx):
    prog = ctx.prog
    ds.snapshot_rules(ctx, 'C13')
    request_locks(ctx)
    c11.selection_predicate(ctx, 'C13')
    poller(ctx)
    ss.flush_complete(ctx, 'C13')
    ds.request_paths_write_free(ctx, 'C13')
    ds.err_discipline(ctx, 'C13', ['akd::directory::', 'akd::append_only_zks::', 'akd::tree_node::'], EXC)
    readonly_wrapper(ctx, 'C13')


def poller(ctx):
    prog = ctx.prog
    b = prog.fn_and_inner(ds.D + 'poll_for_azks_changes')
    where = '%s:%s' % (b.file, b.line)
    regs = [r for r in ds.guard_region(b, ('RwLock::write',)) if r['lock'] == 'self.cache_lock']
    fl = [ev for ev, c in find_events(b, 'StorageManager::flush_cache')]
    fetch = [(ev, c) for ev, c in find_events(b, 'Directory::get_azks_from_storage')]
    send = [ev for ev, c in find_events(b, 'Sender::send')]
    refetch = [(ev, c) for ev, c in fetch if is_const(arg(c, 1), 0) and fl and b.blk_dominates(fl[0]['pos'][0], ev['pos'][0])]
    uncached = [(ev, c) for ev, c in fetch if is_const(arg(c, 1), 1)]
    ok = bool(regs and fl and refetch and send)
    detail = 'write lock, flush, re-fetch or notification missing'
    if ok:
        acq, f, rf, sd = regs[0]['ev']['pos'][0], fl[0]['pos'][0], refetch[0][0]['pos'][0], send[0]['pos'][0]
        g = ss.q_guard_of(b, refetch[0][0], 'Directory::get_azks_from_storage')
        chain = b.blk_dominates(acq, f) and b.blk_dominates(f, rf) and bool(g) and \
            any(edge_dominates(b, (g['block'], tb), sd) for v, tb in g['pass'])
        held = ds.held_until(b, regs[0], sd)
        ok = chain and held
        detail = 'change notification is dominated by write-lock acquisition, cache flush and successful re-fetch of the epoch record, lock still held' \
            if ok else 'notification order broken: lock→flush→refetch→notify chain=%s, lock held until notify=%s' % (chain, held)
    ctx.ob('C13.POLL.order', 'RF-ORDER', ok, b.path, where, detail, key='RF-ORDER|C13.POLL.order')
    dec = decisions(b, lambda fc: fc[0] == 'rel' and fc[1] == 'lt' and 'latest_epoch' in show(fc[2]) and show(fc[3]).endswith('.latest_epoch')
                    and list(calls_in(fc[2], 'get_azks_from_storage'))
                    and all(is_const(arg(c, 1), 1) for c in calls_in(fc[3], 'get_azks_from_storage'))
                    and all(is_const(arg(c, 1), 0) for c in calls_in(fc[2], 'get_azks_from_storage')))
    ok2 = bool(dec and uncached and fl) and edge_dominates(b, (dec[0]['block'], dec[0]['true']), fl[0]['pos'][0])
    ctx.ob('C13.POLL.compare', 'RF-GUARD', ok2, b.path, where,
           'flush/notify happen exactly when the uncached epoch is greater than the last seen one' if ok2 else
           'the poller\'s change test is not `uncached.latest_epoch > last.latest_epoch`', key='RF-GUARD|C13.POLL.compare')


def readonly_wrapper(ctx, pfx):
    """ReadOnlyDirectory methods forward to the same Directory methods with the same arguments"""
    prog = ctx.prog
    n = 0
    for name in ('lookup', 'batch_lookup', 'key_history', 'audit', 'get_epoch_hash', 'poll_for_azks_changes', 'get_public_key'):
        b = prog.fn_and_inner('akd::directory::ReadOnlyDirectory::' + name)
        e = result_expr(b)
        cs = [c for c in calls_in(e, 'Directory::' + name) if (c[1] or '').startswith(ds.D)]
        pn = [v for k, v in sorted(prog.one('akd::directory::ReadOnlyDirectory::' + name).param_names().items()) if v != 'self']
        ok = len(cs) == 1 and access_path(arg(cs[0], 0)) == 'self.0' and [access_path(a) for a in cs[0][3][1:]] == pn and \
            e[0] == 'await' or (e[0] == 'phi' and all(x[0] == 'await' for x in e[1]))
        ok = bool(ok) and len(cs) == 1 and [access_path(a) for a in cs[0][3][1:]] == pn
        n += 1
        ctx.ob('%s.SIB.readonly[%s]' % (pfx, name), 'RF-SIB', ok, b.path, '%s:%s' % (b.file, b.line),
               'forwards to Directory::%s(%s) unchanged' % (name, ', '.join(pn)) if ok else 'ReadOnlyDirectory::%s is not a plain forward: %s' % (name, show(e)[:140]))


def request_locks(ctx):
    """every request holds the read side of cache_lock from before its first
    storage access until its last one: the poller's flush (write side) can then
    not interleave with a cache miss -> database read -> cache fill of the request,
    which would leave a record of the old epoch in the freshly flushed cache"""
    prog = ctx.prog
    for r in ds.REQUESTS + ('publish',):
        b = prog.fn_and_inner(ds.D + r)
        where = '%s:%s' % (b.file, b.line)
        regs = [x for x in ds.guard_region(b, ('RwLock::read',)) if x['lock'] == 'self.cache_lock']
        touch = [ev for ev in b.events() if any(isinstance(c, tuple) and c[0] == 'call' and
                                                (has_leaf(c, 'self.storage') or call_is(c, ds.SNAP_FETCH) or (c[1] or '').startswith(ds.AZ))
                                                for c in ev['calls'])]
        ok = False
        detail = 'the request never takes cache_lock.read(): its cache fills can interleave with the poller\'s flush'
        if regs and touch:
            rg = regs[0]
            acq = rg['ev']['pos'][0]
            before = all(b.blk_dominates(acq, ev['pos'][0]) for ev in touch)
            held = all(ds.held_until(b, rg, ev['pos'][0]) for ev in touch)
            ok = before and held
            detail = 'cache_lock.read() guard `%s` covers all %d storage-touching steps of %s' % (rg['name'], len(touch), r) if ok else \
                'the cache_lock read guard does not cover every storage access of %s (acquired-before-all=%s held-until-all=%s)' % (r, before, held)
        ctx.ob('C13.LOCK[%s]' % r, 'RF-ORDER', ok, b.path, where, detail, key='RF-ORDER|C13.LOCK|%s' % r)
    # the reader/flush exclusion only works if requests and the poller take the SAME lock: clones of a directory
    # (the poller typically runs on one) share storage and cache, so Clone must share cache_lock as well
    # (seeded change C13-r1-a gave each clone a fresh RwLock)
    from rules import c12
    sh = c12.lock_shared_by_clones(ctx, 'self.cache_lock')
    cl = prog.find('<Directory as Clone>::clone')
    ctx.ob('C13.LOCK.shared_by_clones', 'RF-OWN', sh is True, cl[0].path if cl else ds.D + 'clone',
           '%s:%s' % (cl[0].file, cl[0].line) if cl else None,
           'Directory::clone shares cache_lock (an Arc): a poller on a clone excludes requests on every other clone' if sh is True else
           'clones of a directory do not share cache_lock (%s): a flush by the change poller on one clone can interleave with a '
           'request\'s cache fill on another, leaving records of the old epoch in the flushed cache' % sh,
           key='RF-OWN|C13.LOCK.shared')
