"""C03 — key history returns a verifying, complete account of a label's versions
(structural part).

Decides: one snapshot per request (including create_single_update_proof);
server and verifier call the same `akd_core::utils::get_marker_versions` with
(start version, end version, snapshot epoch); value states are filtered by
epoch <= snapshot epoch, ordered by epoch descending, truncated by take(n) only
for MostRecent(n), and an empty selection fails; every UpdateProof field is
derived under the tuple the verifier checks it under (existence (Fresh, v),
previous (Stale, v-1) present iff v > 1, nonce from the existence label) and
marker proofs are built by iterating the whole marker lists (past: membership,
future: non-membership, both Fresh).  Does not decide completeness of the
result list for every history."""
from analysis.rulelib import *
from analysis.mir import leaves, calls_in, show, walk, short, PLUMBING
from rules import dir_shared as ds, verify_shared as vs, c01, c02

EXPLANATION = __doc__
FLOOR = 40
GMV = 'akd_core::utils::get_marker_versions'


def muts_of(e):
    out = []
    while e[0] in ('mutby', 'phi'):
        if e[0] == 'phi':
            for a in e[1]:
                out += muts_of(a)
            break
        out += list(e[1])
        e = e[2]
    return out


def run(ctx):
    prog = ctx.prog
    ds.snapshot_rules(ctx, 'C03', requests=('key_history',))
    b = prog.fn_and_inner(ds.D + 'key_history')
    where = '%s:%s' % (b.file, b.line)
    snap = [(ev, c) for cal in ds.SNAP_FETCH for ev, c in find_events(b, cal)]
    if len(snap) != 1:
        return
    snapc = snap[0][1]
    is_epoch = lambda e: e[0] == 'call' and call_is(e, 'get_latest_epoch') and ds.snapshot_derived(arg(e, 0), snapc)
    # marker versions: same function as the verifier, (V, V, E)
    mv = [c for ev in b.events() for c in ev['calls'] if isinstance(c, tuple) and c[0] == 'call' and c[1] == GMV]
    ok = len(set(mv)) == 1 and has_call(arg(mv[0], 0), 'min') and has_call(arg(mv[0], 1), 'max') and is_epoch(arg(mv[0], 2)) and \
        'version' in show(arg(mv[0], 0)) and 'version' in show(arg(mv[0], 1))
    vh = prog.one('akd_core::verify::history::verify_with_history_params')
    vmv = [t for t in vh.calls() if t.get('fn') == GMV]
    ctx.ob('C03.M.same_function', 'RF-SIB', ok and len(vmv) == 1, b.path, where,
           'key_history and verify_with_history_params call the same akd_core::utils::get_marker_versions(min version, max version, snapshot epoch)'
           if ok and vmv else 'server and verifier do not share one marker-version computation: %s' % [show(c)[:120] for c in mv][:2],
           key='RF-SIB|C03.same_function')
    if not mv:
        return
    # selection
    ud = arg(next(iter([c for ev in b.events() for c in ev['calls'] if isinstance(c, tuple) and c[0] == 'call' and call_is(c, 'create_single_update_proof')]), ('call', None, None, ())), 3)
    base = ud[1] if ud and ud[0] == 'elem' else ('unk',)
    ms = muts_of(base)
    ret = [m for m in ms if call_is(m, 'Vec::retain')]
    okr = False
    if ret:
        clo = arg(ret[0], 1)
        cb = prog.bodies.get(clo[1]) if clo[0] == 'closure' else None
        if cb is not None:
            r = result_expr(cb)
            caps = dict(clo[2])
            okr = r[0] == 'bin' and r[1] == 'Le' and split_fields(r[2])[1].endswith('epoch') and access_path(r[3]) == 'current_epoch' and \
                any(is_epoch(v) for v in caps.values())
    ctx.ob('C03.S.retain', 'RF-GUARD', okr, b.path, where, 'states newer than the snapshot epoch are dropped (retain epoch <= snapshot epoch)' if okr else
           'value states are not filtered by `epoch <= snapshot epoch` before proofs are built', key='RF-GUARD|C03.retain')
    srt = [m for m in ms if call_is(m, 'sort_by')]
    oks = False
    if srt:
        clo = arg(srt[0], 1)
        cb = prog.bodies.get(clo[1]) if clo[0] == 'closure' else None
        if cb is not None:
            r = result_expr(cb)
            pn = cb.param_names()
            oks = r[0] == 'call' and call_is(r, 'cmp') and access_path(arg(r, 0)) == 'b.epoch' and access_path(arg(r, 1)) == 'a.epoch'
    ctx.ob('C03.S.order', 'RF-GUARD', oks, b.path, where, 'states are ordered by epoch descending (newest first)' if oks else
           'states are not sorted by epoch descending')
    tk = list({x for x in walk(base) if x[0] == 'call' and call_is(x, 'Iterator::take')})
    inner = base
    while inner[0] == 'mutby':
        inner = inner[2]
    other = ('Iterator::skip', 'Iterator::filter', 'Iterator::step_by', 'Vec::pop', 'Vec::remove', 'Vec::drain', 'Vec::split_off', 'Vec::swap_remove')
    okt = len(tk) == 1 and show(arg(tk[0], 1)).startswith('params as MostRecent') and inner[0] == 'phi' and \
        any(not [y for y in walk(a) if y[0] == 'call' and call_is(y, ('Iterator::take', 'Iterator::skip', 'Iterator::filter'))] for a in inner[1]) and \
        not [y for y in walk(base) if y[0] == 'call' and call_is(y, other + ('Vec::truncate',))]
    # the same selection written in place: `if let MostRecent(n) = params { user_data.truncate(n) }`
    tr = [m for m in ms if call_is(m, 'Vec::truncate')]
    trsites = [(pos, t) for pos, t in b.call_sites() if (short(t.get('res') or t.get('fn')) or '').endswith('Vec::truncate')]
    if not tk and len(tr) == 1 and len(trsites) == 1 and show(arg(tr[0], 1)).startswith('params as MostRecent') and \
            not [y for y in walk(base) if y[0] == 'call' and call_is(y, other + ('Iterator::take',))]:
        # truncate must sit on the MostRecent side only (the scrutinee decides), Complete keeps all: guaranteed by its argument
        # being the MostRecent payload (only defined on that arm)
        okt = True
    # the limit applies to the states that survived the snapshot filter and the sort: retain and sort_by both
    # execute before the take/truncate on every path (seeded change C03-r1-a: the cut was moved before the filter)
    def sites(name):
        return [pos for pos, t in b.call_sites() if (short(t.get('res') or t.get('fn')) or '').endswith(name)]
    lim = sites('Iterator::take') + sites('Vec::truncate')
    pre = {'retain': sites('Vec::retain'), 'sort_by': sites('sort_by')}
    oko = bool(lim) and all(v for v in pre.values()) and all(
        any(b.blk_dominates(p[0], l[0]) and (p[0] != l[0] or p[1] < l[1]) for p in ps) for ps in pre.values() for l in lim)
    ctx.ob('C03.S.filter_before_limit', 'RF-ORDER', oko, b.path, where,
           'the snapshot filter (retain) and the newest-first sort run before the MostRecent(n) cut' if oko else
           'the MostRecent(n) cut is not preceded on every path by the snapshot filter (retain epoch <= snapshot) and the sort: '
           'states newer than the snapshot would count towards n', key='RF-ORDER|C03.filter_before_limit')
    ctx.ob('C03.S.limit', 'RF-GUARD', okt, b.path, where, 'MostRecent(n) keeps the first n states, Complete keeps all' if okt else
           'the selection is not {Complete: all, MostRecent(n): take(n)}: %s' % show(base)[:160], key='RF-GUARD|C03.limit')
    # the request-controlled n reaches only the cut itself (take / truncate) — not an allocation size or arithmetic,
    # which panic or wrap for n near usize::MAX although "any N >= 1" is a valid request (seeded change C03-r2-b)
    badn = []
    for pos, t in b.call_sites():
        nm = short(t.get('res') or t.get('fn')) or ''
        for a in t.get('args', []):
            e = b.expr_op(a, pos)
            if show(e).startswith('params as MostRecent') and not nm.endswith(('Iterator::take', 'Vec::truncate', 'cmp::min', 'Ord::min')) \
                    and not (t.get('fn') or '').startswith(('core::fmt', 'alloc::fmt')) and t.get('fn') not in PLUMBING:
                badn.append('%s(%s) at %s' % (nm, show(e)[:40], b.loc(pos)))
    for pos, st in b.stmts():
        if st.get('k') == 'assign' and st['r']['k'] == 'bin' and st['r']['op'].split('With')[0] in ('Add', 'Sub', 'Mul', 'Shl'):
            e = b._expr_rvalue(st['r'], pos, 0)
            if any(show(x).startswith('params as MostRecent') for x in e[2:4]):
                badn.append('arithmetic %s at %s' % (show(e)[:60], b.loc(pos)))
    ctx.ob('C03.S.limit_only_cuts', 'RF-FLOW', not badn, b.path, where,
           'MostRecent(n): n is used only as the cut (take / truncate)' if not badn else
           'the request\'s n flows into %s: a large n (a valid request) panics or wraps' % badn, key='RF-FLOW|C03.limit_only_cuts')
    require_guard(ctx, b, 'C03.S.empty', 'RF-GUARD', lambda fc: fc[0] == 'pred' and fc[1].endswith('Vec::is_empty') and fc[3] is True and
                  has_call(fc[2][0], 'get_user_data'), 'an empty selection is an error')
    # HistoryProof literal
    hp = [x for pos, e in ok_aggregates(b) for x in walk(e) if x[0] == 'agg' and x[1] == 'HistoryProof']
    if len(hp) != 1:
        ctx.ob('C03.H.literal', 'RF-BIND', False, b.path, where, 'key_history does not return one HistoryProof literal')
        return
    f = dict(hp[0][3])

    def pushed(e):
        return [arg(m, 1) for m in muts_of(e) if call_is(m, 'Vec::push')]

    def marker_src(e, idx):
        return [x for x in walk(e) if x[0] == 'elem' and x[1][0] == 'field' and x[1][2] == str(idx) and x[1][1][0] == 'call' and x[1][1][1] == GMV]
    up = pushed(f.get('update_proofs', ('unk',)))
    ok = len(up) == 1 and has_call(up[0], 'create_single_update_proof') and ud[0] == 'elem' and \
        ds.snapshot_derived(arg(next(calls_in(up[0], 'create_single_update_proof')), 1), snapc)
    ctx.ob('C03.H[update_proofs]', 'RF-BIND', ok, b.path, where, 'one update proof per selected state, built on the snapshot' if ok else
           'update_proofs is not one create_single_update_proof(snapshot, label, state) per selected state', key='RF-BIND|C03.H|update_proofs')

    def vrf_ok(e, idx):
        cs = list(calls_in(e, 'get_label_proof'))
        return len(cs) == 1 and access_path(arg(cs[0], 1)) == 'akd_label' and spec_match(arg(cs[0], 2), vs.FRESH) and bool(marker_src(arg(cs[0], 3), idx)) \
            and arg(cs[0], 3)[0] == 'elem'

    def tree_ok(e, fn, idx):
        cs = list(calls_in(e, fn))
        if len(cs) != 1 or not ds.snapshot_derived(arg(cs[0], 0), snapc):
            return False
        nl = list(calls_in(arg(cs[0], 2), 'get_node_label'))
        return len(nl) == 1 and access_path(arg(nl[0], 1)) == 'akd_label' and spec_match(arg(nl[0], 2), vs.FRESH) and arg(nl[0], 3)[0] == 'elem' and \
            bool(marker_src(arg(nl[0], 3), idx))
    for fld, kind, idx, fn in (('past_marker_vrf_proofs', 'vrf', 0, None), ('existence_of_past_marker_proofs', 'tree', 0, 'get_membership_proof'),
                               ('future_marker_vrf_proofs', 'vrf', 1, None), ('non_existence_of_future_marker_proofs', 'tree', 1, 'get_non_membership_proof')):
        ps = pushed(f.get(fld, ('unk',)))
        ok = len(ps) == 1 and (vrf_ok(ps[0], idx) if kind == 'vrf' else tree_ok(ps[0], fn, idx))
        ctx.ob('C03.H[%s]' % fld, 'RF-BIND', ok, b.path, where,
               '%s: one %s per element of the whole %s marker list, label (Fresh, marker version)' % (
                   fld, 'VRF proof' if kind == 'vrf' else fn, 'past' if idx == 0 else 'future') if ok else
               '%s is not built from every %s marker version under (Fresh, version): %s' % (fld, 'past' if idx == 0 else 'future', [show(p)[:120] for p in ps]),
               key='RF-BIND|C03.H|%s' % fld)
    single_update(ctx)
    # "verifies when checked with the same parameter": the verifier's parameter/shape checks are the accept conditions
    # an honest MostRecent(N) / Complete proof has to meet, for every N (seeded change C03-r1-b changed them)
    from rules import c07
    from rules.c06 import SubCtx
    c07.vh_rules(SubCtx(ctx, 'C03.verifier.'))
    c01.units_directory(ctx, 'C03')
    ds.err_discipline(ctx, 'C03', ['akd::directory::'], c02.c13_exc())


def single_update(ctx):
    prog = ctx.prog
    b = prog.fn_and_inner(ds.D + 'create_single_update_proof')
    where = '%s:%s' % (b.file, b.line)
    up = [e for pos, e in ok_aggregates(b) if e[0] == 'agg' and e[1] == 'UpdateProof']
    if len(up) != 1:
        ctx.ob('C03.U.literal', 'RF-BIND', False, b.path, where, 'create_single_update_proof does not return one UpdateProof literal')
        return
    f = dict(up[0][3])
    us = 'user_state.'
    ver = us + 'version'
    vm1 = ('bin', 'Sub', ver, ('const', 1))

    def vrf(e, fresh, vspec):
        cs = list(calls_in(e, 'get_label_proof'))
        return len(cs) == 1 and access_path(arg(cs[0], 1)) == 'akd_label' and spec_match(arg(cs[0], 2), fresh) and spec_match(arg(cs[0], 3), vspec)

    def tree(e, fresh, vspec):
        cs = list(calls_in(e, 'get_membership_proof'))
        if len(cs) != 1 or access_path(arg(cs[0], 0)) != 'current_azks':
            return False
        nl = list(calls_in(arg(cs[0], 2), 'get_node_label'))
        return len(nl) == 1 and access_path(arg(nl[0], 1)) == 'akd_label' and spec_match(arg(nl[0], 2), fresh) and spec_match(arg(nl[0], 3), vspec)

    def opt(e, inner):
        if e[0] != 'phi':
            return False
        alts = list(e[1])
        none = [a for a in alts if a[0] == 'agg' and a[1] == 'Option' and a[2] == 'None']
        some = [a for a in alts if a[0] == 'agg' and a[1] == 'Option' and a[2] == 'Some']
        return len(none) >= 1 and len(some) == 1 and inner(some[0][3][0][1])
    table = [
        ('epoch', lambda e: access_path(e) == us + 'epoch', 'user_state.epoch'),
        ('version', lambda e: access_path(e) == ver, 'user_state.version'),
        ('value', lambda e: access_path(e) == us + 'value', 'user_state.value'),
        ('existence_vrf_proof', lambda e: vrf(e, vs.FRESH, ver), 'VRF proof for (Fresh, version)'),
        ('existence_proof', lambda e: tree(e, vs.FRESH, ver), 'membership of the (Fresh, version) label on the caller\'s snapshot'),
        ('previous_version_vrf_proof', lambda e: opt(e, lambda x: vrf(x, vs.STALE, vm1)), 'Some(VRF proof for (Stale, version-1)) or None'),
        ('previous_version_proof', lambda e: opt(e, lambda x: tree(x, vs.STALE, vm1)), 'Some(membership of the (Stale, version-1) label) or None'),
    ]
    for name, pred, desc in table:
        e = f.get(name, ('unk',))
        ok = bool(pred(e))
        ctx.ob('C03.U[%s]' % name, 'RF-BIND', ok, b.path, where, 'UpdateProof.%s = %s' % (name, desc) if ok else
               'UpdateProof.%s is not %s: %s' % (name, desc, show(e)[:160]), key='RF-BIND|C03.U|%s' % name)
    e = f.get('commitment_nonce', ('unk',))
    cs = list(calls_in(e, 'get_commitment_nonce'))
    ok = bool(cs) and has_call(arg(cs[0], 0), 'derive_commitment_key') and has_call(arg(cs[0], 1), 'get_node_label_from_vrf_proof') and \
        any(spec_match(arg(x, 2), vs.FRESH) and access_path(arg(x, 3)) == ver for x in calls_in(arg(cs[0], 1), 'get_label_proof')) and \
        access_path(arg(cs[0], 2)) == ver and access_path(arg(cs[0], 3)) == us + 'value'
    ctx.ob('C03.U[commitment_nonce]', 'RF-BIND', ok, b.path, where, 'nonce = get_commitment_nonce(key, existence label, version, value)' if ok else
           'commitment nonce is not derived from (key, existence label, version, value)', key='RF-BIND|C03.U|commitment_nonce')
    # previous-version parts present iff version > 1
    d = decisions(b, lambda fc: fc[0] == 'rel' and fc[1] == 'lt' and is_const(fc[2], 1) and access_path(fc[3]) == ver)
    somes = [pos for pos, s in b.stmts() if s.get('k') == 'assign' and s['r']['k'] == 'agg' and s['r'].get('adt') == 'Option' and s['r'].get('variant') == 'Some'
             and any(has_call(b.expr_op(o, pos), ('get_membership_proof', 'get_label_proof')) for o in s['r']['ops'])]
    ok = bool(d) and len(somes) == 2 and all(edge_dominates(b, (d[0]['block'], d[0]['true']), p[0]) for p in somes)
    if ok:
        # and on the version > 1 side both are always set before Ok
        ks = b.exits((d[0]['true'], 0), avoid_blocks=[p[0] for p in somes[:1]])
        ks2 = b.exits((d[0]['true'], 0), avoid_blocks=[p[0] for p in somes[1:]])
        ok = not (ks - {'Err', 'Diverge'}) and not (ks2 - {'Err', 'Diverge'})
    ctx.ob('C03.U.prev_iff', 'RF-GUARD', ok, b.path, where, 'previous-version proof and VRF proof are present exactly when version > 1' if ok else
           'presence of the previous-version parts is not decided by `version > 1`', key='RF-GUARD|C03.U.prev_iff')
