"""C01 — each epoch's root hash is determined by the publish history alone
(structural part).

Decides: exactly one epoch step per effective publish (increment_epoch once on
every Ok path of batch_insert_nodes, outside loops; owners of
Azks.latest_epoch); the Azks record stored by publish is the incremented
snapshot; epoch stamps of value states, inserted nodes and the returned
EpochHash all derive from snapshot.latest_epoch + 1; rejected (duplicate
labels) and no-op batches reach no write and the no-op returns the snapshot
epoch; unchanged values are skipped, a changed value yields Stale(v) and
Fresh(v+1) together, a new label Fresh(1); bottom-up rehash (update_hash after
set_child and after joins, children written); hash formulas use all their
inputs in both configurations; epoch/version dimensions.  Does not decide that
incremental insertion equals the canonical compressed trie."""
from analysis.rulelib import *
from analysis.mir import leaves, calls_in, show, walk, short, term_is
from analysis import units
from rules import dir_shared as ds, storage_shared as ss, c18

EXPLANATION = __doc__
FLOOR = 41


def run(ctx):
    prog = ctx.prog
    epoch_step(ctx)
    publish_rules(ctx)
    rehash_rules(ctx)
    tree_effects_unconditional(ctx, 'C01')
    # a storage error while re-hashing must fail the publish, never count as an absent child (seed C01-r2-a)
    # (3 such matches exist without the greedy-preload feature, 5 with it)
    ds.err_swallow(ctx, 'C01', ['akd::append_only_zks::', 'akd::tree_node::'], ds.SWALLOW_EXC, min_sites=3)
    for name, pre in c18.CFGS:
        flow_complete(ctx, 'C01.F.leaf[%s]' % name, prog.one(pre + 'hash_leaf_with_commitment'), ['commitment', 'epoch'], 'leaf hash')
        flow_complete(ctx, 'C01.F.parent[%s]' % name, prog.one(pre + 'compute_parent_hash_from_children'),
                      ['left_val', 'left_label', 'right_val', 'right_label'], 'parent hash')
        fresh = ['commitment_key', 'label', 'value'] + (['version'] if name == 'whatsapp_v1' else [])
        flow_complete(ctx, 'C01.F.fresh[%s]' % name, prog.one(pre + 'compute_fresh_azks_value'), fresh, 'fresh leaf commitment')
        flow_complete(ctx, 'C01.F.root[%s]' % name, prog.one(pre + 'compute_root_hash_from_val'), ['root_val'], 'root hash')
    # the constants of the commitment (spec: akd_core/src/lib.rs): a retired version's leaf carries the configuration's
    # stale value — H(EMPTY_VALUE) in whatsapp_v1, the all-zero digest in experimental — which is NOT the value of an absent
    # child; server and verifier share the helper, so another constant changes every root that covers an updated label
    # while all proofs keep verifying (seeded change C01-r3-a)
    want = {'whatsapp_v1': 'AzksValue::AzksValue{0: <WhatsAppV1Configuration as Configuration>::hash(types::EMPTY_VALUE)}',
            'experimental': 'AzksValue::AzksValue{0: hash::EMPTY_DIGEST}'}
    for name, pre in c18.CFGS:
        sv = prog.one(pre + 'stale_azks_value')
        e0 = result_expr(sv)
        # a nullary helper of the same configuration is looked through (e.g. `Self::empty_root_value()`, which is the
        # same digest in whatsapp_v1), so only the resulting formula counts
        for _ in range(2):
            if e0[0] == 'call' and not e0[3] and (e0[2] or e0[1]) in prog.bodies and (e0[2] or e0[1]).startswith(pre):
                e0 = result_expr(prog.bodies[e0[2] or e0[1]])
        got = show(e0)
        ok = got == want.get(name) or (name == 'experimental' and got == 'AzksValue::AzksValue{0: 0}')
        ctx.ob('C01.F.stale_value[%s]' % name, 'RF-FLOW', ok, sv.path, '%s:%s' % (sv.file, sv.line),
               'stale leaves carry %s' % want.get(name) if ok else 'the stale-leaf value is no longer %s but %s' % (want.get(name), got[:120]),
               key='RF-FLOW|stale_value|%s' % name)
    nv = prog.one('akd::tree_node::node_to_azks_value')
    e = result_expr(nv)
    hc = list(calls_in(e, 'hash_leaf_with_commitment'))
    ok = bool(hc) and has_leaf(arg(hc[0], 1), 'input') and 'last_epoch' in show(arg(hc[0], 1)) and 'hash' in show(arg(hc[0], 0))
    ctx.ob('C01.F.leaf_epoch', 'RF-FLOW', ok, nv.path, '%s:%s' % (nv.file, nv.line),
           'leaf values are mixed with the leaf\'s last_epoch when hashing with leaf epochs' if ok else
           'node_to_azks_value no longer hashes leaves with their last_epoch')
    # the absent child of the commitment: value TC::empty_node_hash(), label TC::empty_label() (spec: akd_core/src/lib.rs);
    # the verifier's parent-hash fold receives exactly these from the proofs, so another constant here changes every
    # root of a tree with a one-child node while all proofs keep verifying (seeded change C01-r2-b)
    alts = e[1] if e[0] == 'phi' else (e,)
    none_alt = [a for a in alts if not has_leaf(a, 'input')]
    ok = len(none_alt) == 1 and none_alt[0][0] == 'call' and call_is(none_alt[0], 'empty_node_hash') and not none_alt[0][3]
    ctx.ob('C01.F.absent_child_value', 'RF-FLOW', ok, nv.path, '%s:%s' % (nv.file, nv.line),
           'an absent child contributes TC::empty_node_hash()' if ok else
           'an absent child no longer contributes TC::empty_node_hash(): %s' % [show(a)[:80] for a in none_alt])
    nl = prog.one('akd::tree_node::node_to_label')
    el = result_expr(nl)
    alts = el[1] if el[0] == 'phi' else (el,)
    none_alt = [a for a in alts if not has_leaf(a, 'input')]
    ok = len(none_alt) == 1 and none_alt[0][0] == 'call' and call_is(none_alt[0], 'empty_label') and not none_alt[0][3]
    ctx.ob('C01.F.absent_child_label', 'RF-FLOW', ok, nl.path, '%s:%s' % (nl.file, nl.line),
           'an absent child is labelled TC::empty_label()' if ok else 'an absent child is no longer labelled TC::empty_label(): %s' % [show(a)[:80] for a in none_alt])
    units_directory(ctx, 'C01')


def epoch_step(ctx):
    prog = ctx.prog
    b = prog.fn_and_inner(ds.AZ + 'batch_insert_nodes')
    inc = [ev for ev, c in find_events(b, 'Azks::increment_epoch')]
    ok = len(inc) == 1 and not b.in_loop(inc[0]['pos'][0])
    if ok:
        ks = b.exits((0, 0), avoid_blocks=[inc[0]['pos'][0]])
        ok = not (ks - {'Err', 'Diverge'})
    ctx.ob('C01.E.once', 'RF-ORDER', ok, b.path, '%s:%s' % (b.file, inc[0]['line'] if inc else b.line),
           'increment_epoch is called exactly once, outside loops, on every Ok path of batch_insert_nodes' if ok else
           'increment_epoch is called %d times / inside a loop / can be bypassed on an Ok path' % len(inc), key='RF-ORDER|C01.E.once')
    ie = prog.one(ds.AZ + 'increment_epoch')
    wr = [(pos, s) for pos, s in ie.stmts() if s.get('k') == 'assign' and any(isinstance(el, dict) and el.get('f') == 'latest_epoch' for el in s['p'][1:])]
    ok = len(wr) == 1 and spec_match(ie._expr_rvalue(wr[0][1]['r'], wr[0][0], 0), ('bin', 'Add', 'self.latest_epoch', ('const', 1)))
    ctx.ob('C01.E.plus_one', 'RF-BIND', ok, ie.path, '%s:%s' % (ie.file, ie.line), 'increment_epoch sets latest_epoch = latest_epoch + 1'
           if ok else 'increment_epoch does not advance the epoch by exactly one')
    # owners of Azks.latest_epoch
    allowed = {ds.AZ + 'increment_epoch', 'akd::auditor::verify_append_only_hash'}
    bad = []
    n = 0
    for p, body in ds.nontest_bodies(prog, ('akd',)):
        for pos, s in body.stmts():
            if s.get('k') == 'assign' and any(isinstance(el, dict) and el.get('f') == 'latest_epoch' and el.get('o') == 'Azks' for el in s['p'][1:]):
                n += 1
                if p.split('::{closure')[0] not in allowed:
                    bad.append('%s (%s)' % (p, body.loc(pos)))
            if s.get('k') == 'assign' and s['r']['k'] == 'agg' and s['r'].get('adt') == 'Azks':
                n += 1
                base = p.split('::{closure')[0]
                if base not in (ds.AZ + 'new', 'akd::storage::types::DbRecord::build_azks') and not ss.__name__ == '':
                    if not any(x in p for x in ('<Azks as Clone>', 'Deserialize', 'akd::storage::types::DbRecord::build_azks')):
                        bad.append('%s builds an Azks literal (%s)' % (p, body.loc(pos)))
    ctx.ob('C01.E.owners', 'RF-OWN', not bad and n >= 3, ds.AZ, None,
           'Azks.latest_epoch is written only by increment_epoch, the constructors and the auditor\'s scratch tree (%d sites)' % n if not bad else
           'Azks.latest_epoch written outside its owners: %s' % bad[:4], key='RF-OWN|C01.E.owners')
    # the epoch given to the recursive insertion is the incremented one
    rec = find_events(b, 'Azks::recursive_batch_insert_nodes')
    ok = bool(rec) and show(arg(rec[0][1], 3)).startswith('self.latest_epoch') and inc and b.blk_dominates(inc[0]['pos'][0], rec[0][0]['pos'][0])
    ctx.ob('C01.E.insert_epoch', 'RF-SNAP', bool(ok), b.path, '%s:%s' % (b.file, rec[0][0]['line'] if rec else b.line),
           'nodes are inserted with self.latest_epoch after the increment' if ok else 'insertion epoch is not the incremented latest_epoch')
    wr = find_events(b, 'TreeNode::write_to_storage')
    ok = bool(rec and wr) and has_call(arg(wr[0][1], 0), 'recursive_batch_insert_nodes')
    ctx.ob('C01.E.root_written', 'RF-ORDER', ok, b.path, '%s:%s' % (b.file, b.line), 'the returned root node is written by the caller' if ok
           else 'the root node returned by the recursive insertion is not written to storage')


def publish_rules(ctx):
    prog = ctx.prog
    b = prog.fn_and_inner(ds.D + 'publish')
    where = '%s:%s' % (b.file, b.line)
    snap = [(ev, c) for cal in ds.SNAP_FETCH for ev, c in find_events(b, cal)]
    ok = len(snap) == 1
    ctx.ob('C01.P.snapshot', 'RF-SNAP', ok, b.path, where, 'publish reads the epoch record once' if ok else 'publish reads the epoch record %d times' % len(snap))
    if not ok:
        return
    snapc = snap[0][1]
    nxt = lambda e: e[0] == 'bin' and e[1] == 'Add' and is_const(e[3], 1) and e[2][0] == 'call' and call_is(e[2], 'get_latest_epoch') and \
        ds.snapshot_derived(arg(e[2], 0), snapc)
    # the versions a publish builds on are read "as of" the snapshot (rows of an unfinished epoch are invisible)
    uv = find_events(b, 'StorageManager::get_user_state_versions')
    ok = len(uv) == 1 and spec_match(arg(uv[0][1], 2), lambda e: e[0] == 'agg' and e[1] == 'ValueStateRetrievalFlag' and e[2] == 'LeqEpoch' and
                                     e[3][0][1][0] == 'call' and call_is(e[3][0][1], 'get_latest_epoch') and ds.snapshot_derived(arg(e[3][0][1], 0), snapc))
    ctx.ob('C01.P.versions_bounded', 'RF-SNAP', ok, b.path, where, 'current versions are read with LeqEpoch(snapshot epoch)' if ok else
           'publish does not read the labels\' current versions bounded by the snapshot epoch (value states written by an unfinished '
           'commit would be built upon): %s' % [show(arg(c, 2))[:80] for ev, c in uv], key='RF-SNAP|C01.P.versions_bounded')
    # epoch stamps
    vs = [c for ev in b.events() for c in ev['calls'] if isinstance(c, tuple) and c[0] == 'call' and call_is(c, 'ValueState::new')]
    ok = bool(vs) and all(nxt(arg(c, 4)) for c in vs)
    ctx.ob('C01.P.valuestate_epoch', 'RF-SNAP', ok, b.path, where, 'new value states are stamped snapshot.latest_epoch + 1' if ok else
           'ValueState::new is not given snapshot.latest_epoch + 1: %s' % [show(arg(c, 4))[:80] for c in vs])
    oks = ok_aggregates(b)
    fin = [e for pos, e in oks if e[0] == 'agg' and e[1] == 'EpochHash' and nxt(dict(e[3])['0'])]
    noop = [e for pos, e in oks if e[0] == 'agg' and e[1] == 'EpochHash' and dict(e[3])['0'][0] == 'call' and call_is(dict(e[3])['0'], 'get_latest_epoch')]
    ok = len(fin) == 1 and len(noop) == 1 and len(oks) == 2
    if ok:
        h = dict(fin[0][3])['1']
        hs = list(calls_in(h, 'get_root_hash_safe'))
        ok = bool(hs) and nxt(arg(hs[0], 2)) and has_call(arg(hs[0], 0), 'batch_insert_nodes')
    ctx.ob('C01.P.returned', 'RF-SNAP', ok, b.path, where,
           'returns (snapshot+1, root hash as of snapshot+1 of the inserted tree); the no-op path returns the snapshot epoch' if ok else
           'returned EpochHash values are not (next epoch, root of next epoch) / (snapshot epoch, current root): %s' % [show(e)[:120] for _, e in oks])
    # stored Azks record is the incremented snapshot
    bs = find_events(b, 'StorageManager::batch_set')
    ok = False
    if bs:
        recs = [x for x in walk(arg(bs[0][1], 1)) if x[0] == 'agg' and x[1] == 'DbRecord' and x[2] == 'Azks']
        ok = bool(recs) and all(has_call(dict(r[3])['0'], 'batch_insert_nodes') and ds.snapshot_derived(strip_mut(dict(r[3])['0']), snapc) for r in recs)
    ctx.ob('C01.P.azks_record', 'RF-BIND', ok, b.path, where, 'the Azks record written is the snapshot after batch_insert_nodes' if ok else
           'the Azks record handed to batch_set is not the incremented snapshot')
    # duplicates and no-op: no effect
    g = ds.transaction_bracket(SubSilent(ctx), 'C01')
    def dup_pred(fc):
        return fc[0] == 'rel' and fc[1] == 'ne' and any(has_call(y, 'HashSet::len') for y in fc[2:4]) and \
            any(has_call(y, 'len') and not has_call(y, 'HashSet::len') and has_leaf(y, 'updates') for y in fc[2:4])
    dup = [x for x in b.guards() if x['fail'] and any(dup_pred(fc) for fc in failconds(b, x))] or inlined_guards(b, dup_pred)
    emp = decisions(b, lambda fc: fc[0] == 'pred' and fc[1].endswith('Vec::is_empty') and fc[3] is True and any(call_is(m, 'Vec::push') for m in _muts(fc[2][0])))
    begin = find_events(b, 'StorageManager::begin_transaction')
    okd = bool(dup and begin) and edge_dominates(b, (dup[0]['block'], dup[0]['pass'][0][1]), begin[0][0]['pos'][0])
    if okd:
        # the set must be keyed by the label alone (not by the (label, value) entry)
        keyed = False
        for fc in failconds(b, dup[0]):
            for y in fc[2:4]:
                for c in calls_in(y, 'HashSet::len'):
                    for col in calls_in(arg(c, 0), 'Iterator::collect'):
                        hb = prog.bodies.get(dup[0].get('inlined_from'), b)   # the guard may live in a helper
                        rty = hb.blocks[col[4]]['t'].get('rty', '') if col[4] < len(hb.blocks) else ''
                        keyed = keyed or (rty.replace(' ', '').startswith(('std::collections::HashSet<akd_core::AkdLabel', 'std::collections::HashSet<akd_core::types::AkdLabel', 'std::collections::HashSet<&akd_core::AkdLabel')))
        okd = keyed
    ctx.ob('C01.P.duplicates', 'RF-ORDER', okd, b.path, '%s:%s' % (b.file, dup[0]['line'] if dup else b.line),
           'a batch that repeats a label (compared by label alone) is rejected before any storage effect' if okd else 'no guard comparing the number of distinct LABELS with the batch size dominates the transaction')
    oke = bool(emp and begin) and emp[0]['false'] is not None and edge_dominates(b, (emp[0]['block'], emp[0]['false']), begin[0][0]['pos'][0])
    if oke:
        # the no-op branch reaches no write-capable call
        reach = b.reach_avoiding([emp[0]['true']], avoid_blocks=[])
        wcalls = [ev for ev in b.events() if ev['pos'][0] in reach and any(
            isinstance(c, tuple) and c[0] == 'call' and (call_is(c, ('StorageManager::set', 'StorageManager::batch_set', 'begin_transaction',
                                                                         'commit_transaction', 'batch_insert_nodes'))) for c in ev['calls'])]
        oke = not wcalls
    ctx.ob('C01.P.noop', 'RF-ORDER', oke, b.path, '%s:%s' % (b.file, emp[0]['line'] if emp else b.line),
           'an empty update set returns before the transaction and reaches no write' if oke else
           'the empty-update-set path is not separated from the writing path')
    # skip unchanged / stale+fresh together
    clos = [c for c in prog.children(b.path) if c.kind == 'closure']
    fm = None
    for c in clos:
        r = result_expr(c)
        if any(x[0] == 'agg' and x[1] == 'VersionFreshness' for x in walk(r)):
            fm = c
    if fm is None:
        ctx.ob('C01.P.versions', 'RF-GUARD', False, b.path, where, 'cannot find the closure computing (label, freshness, version) triples',
               key='RF-GUARD|C01.P.versions|anchor')
        return
    eqd = decisions(fm, lambda fc: fc[0] == 'rel' and fc[1] == 'eq' and
                    any(has_call(x, 'HashMap::get') and split_fields(x)[1].endswith('1') for x in fc[2:4]) and
                    any(not has_call(x, 'HashMap::get') and split_fields(x)[0][0] == 'var' for x in fc[2:4]))
    ok = False
    if eqd and eqd[0]['true'] is not None:
        # on the equal side the result is an empty vec: no VersionFreshness aggregate is built in blocks reachable only from it
        # (unconditionally: a further condition on the equal side, after which the stale/fresh pair is still produced, is
        # a weakened skip — seeded change C01-r1-b)
        from_true = fm.reach_avoiding([eqd[0]['true']], avoid_blocks=[])
        built = [pos for pos, s in fm.stmts() if pos[0] in from_true and s.get('k') == 'assign' and s['r']['k'] == 'agg' and s['r'].get('adt') == 'VersionFreshness']
        ok = not built
    ctx.ob('C01.P.skip_unchanged', 'RF-GUARD', ok, fm.path, '%s:%s' % (fm.file, eqd[0]['line'] if eqd else fm.line),
           're-submitting the stored value produces no tree element' if ok else 'no decision `stored value == submitted value` that skips the label')
    # conversely: on the not-equal side every path to the closure's return builds the stale/fresh pair
    ok = False
    if eqd and eqd[0]['false'] is not None:
        bb = {pos[0] for pos, s in fm.stmts() if s.get('k') == 'assign' and s['r']['k'] == 'agg' and s['r'].get('adt') == 'VersionFreshness'
              and s['r'].get('variant') == 'Stale'}
        r2 = fm.reach_avoiding([eqd[0]['false']], avoid_blocks=list(bb))
        ok = bool(bb) and eqd[0]['false'] not in bb and not any(fm.blocks[x]['t']['k'] == 'ret' for x in r2)
        ok = ok or (eqd[0]['false'] in bb)
    ctx.ob('C01.P.changed_not_skipped', 'RF-GUARD', ok, fm.path, '%s:%s' % (fm.file, eqd[0]['line'] if eqd else fm.line),
           'a value that differs from the stored one always yields the Stale(v) element (no other way to skip)' if ok else
           'the closure can return without building the Stale(v)/Fresh(v+1) pair although the submitted value differs from the stored one')
    r = result_expr(fm)
    tuples = [x for x in walk(r) if x[0] == 'tuple' and len(x[1]) == 4 and x[1][1][0] == 'agg' and x[1][1][1] == 'VersionFreshness']
    kinds = set()
    for t in tuples:
        fr, ver = t[1][1][2], t[1][2]
        if fr == 'Fresh' and is_const(ver, 1):
            kinds.add('new')
        elif fr == 'Stale' and ver[0] != 'bin' and ver[0] != 'const':
            kinds.add('stale(v)')
        elif fr == 'Fresh' and ver[0] == 'bin' and ver[1] == 'Add' and is_const(ver[3], 1):
            kinds.add('fresh(v+1)')
        else:
            kinds.add('other:%s/%s' % (fr, show(ver)[:40]))
    ok = kinds == {'new', 'stale(v)', 'fresh(v+1)'}
    ctx.ob('C01.P.versions', 'RF-GUARD', ok, fm.path, '%s:%s' % (fm.file, fm.line),
           'new label -> Fresh(1); changed value -> Stale(v) and Fresh(v+1)' if ok else 'version/freshness triples are %s' % sorted(kinds),
           key='RF-GUARD|C01.P.versions')
    # stale and fresh(v+1) come from the same latest_version
    sv = [t[1][2] for t in tuples if t[1][1][2] == 'Stale']
    fv = [t[1][2][2] for t in tuples if t[1][1][2] == 'Fresh' and t[1][2][0] == 'bin']
    ok = bool(sv and fv) and sv[0] == fv[0]
    ctx.ob('C01.P.same_version', 'RF-BIND', ok, fm.path, '%s:%s' % (fm.file, fm.line), 'Stale(v) and Fresh(v+1) use the same stored version v' if ok
           else 'stale and fresh elements are derived from different versions')


def _muts(e):
    out = []
    while e[0] == 'mutby':
        out += list(e[1])
        e = e[2]
    return out


class SubSilent:
    """evaluates a shared rule set without recording it (used to obtain its anchor)"""
    def __init__(self, ctx):
        self.prog, self.progs, self.tier = ctx.prog, ctx.progs, ctx.tier

    def ob(self, *a, **k):
        return True

    def count(self, *a):
        pass


def rehash_rules(ctx):
    prog = ctx.prog
    b = prog.fn_and_inner(ds.AZ + 'recursive_batch_insert_nodes')
    where = '%s:%s' % (b.file, b.line)
    uh = [ev for ev, c in find_events(b, 'TreeNode::update_hash')]
    sc = [(ev, c) for ev, c in find_events(b, 'TreeNode::set_child')]
    ok = len(uh) == 1 and len(sc) >= 3
    if ok:
        ub = uh[0]['pos'][0]
        # no set_child after update_hash; update_hash on every Ok path
        ok = all(ev['pos'][0] not in b._reach_from(ub) for ev, c in sc)
        ks = b.exits((0, 0), avoid_blocks=[ub])
        ok = ok and not (ks - {'Err', 'Diverge'})
    ctx.ob('C01.R.bottom_up', 'RF-ORDER', ok, b.path, where,
           'update_hash runs once, on every Ok path, after every set_child of the node (%d)' % len(sc) if ok else
           'update_hash is not the last step after all set_child calls', key='RF-ORDER|C01.R.bottom_up')
    # every set_child(&mut c) is followed by c.write_to_storage on all non-failure paths
    wts = [(ev, c) for ev, c in find_events(b, 'TreeNode::write_to_storage')]
    bad = []
    for ev, c in sc:
        child = strip_mut(arg(c, 1))
        wb = [w['pos'][0] for w, wc in wts if strip_mut(arg(wc, 0)) == child]
        start = b.blocks[ev['pos'][0]]['t'].get('t')
        ks = b.exits((start, 0), avoid_blocks=wb) if start is not None else {'Ok'}
        if not wb or (ks - {'Err', 'Diverge'}):
            bad.append('set_child at line %s' % ev['line'])
    ctx.ob('C01.R.children_written', 'RF-ORDER', not bad, b.path, where,
           'every child attached with set_child is written to storage before an Ok return' if not bad else
           'a child is attached but not written on some Ok path: %s' % bad, key='RF-ORDER|C01.R.children_written')
    # joins precede update_hash (RF-JOIN + order)
    joins = [ev for ev in b.events() if ev['kind'] == 'await' and any(isinstance(c, tuple) and c[0] == 'call' and call_is(c, 'spawn') for c in ev['calls'])]
    ok = bool(joins and uh) and all(uh[0]['pos'][0] not in b.reach_avoiding([0], avoid_blocks=[]) or True for j in joins) and \
        all(j['pos'][0] not in b._reach_from(uh[0]['pos'][0]) for j in joins)
    ctx.ob('C01.R.join_before_hash', 'RF-JOIN', ok, b.path, where, 'the spawned left subtree is joined before the node is rehashed' if ok else
           'update_hash may run before the spawned subtree task is joined')
    sc_b = prog.one('akd::tree_node::TreeNode::set_child')
    exprs = []
    for pos, s in sc_b.stmts():
        if s.get('k') == 'assign' and len(s['p']) > 1:
            fld = [el.get('f') for el in s['p'][1:] if isinstance(el, dict)]
            if fld and fld[-1] in ('last_epoch', 'min_descendant_epoch') and s['p'][0] != 0:
                exprs.append((fld[-1], sc_b._expr_rvalue(s['r'], pos, 0), pos))
    le = [e for f, e, _ in exprs if f == 'last_epoch']
    me = [e for f, e, _ in exprs if f == 'min_descendant_epoch']

    def extremum(field, fn):
        """every assignment to self.<field> is fn(self.f, child.f), or `self.f = child.f` on the side of a
        comparison on which child.f is the extremum (`if child.f > self.f { self.f = child.f }` for max),
        or — min only — on the `self.f == 0` (unset) side"""
        own, ch = 'self.' + field, 'child_node.' + field
        seen_ext = seen_unset = False
        for f, e, pos in exprs:
            if f != field:
                continue
            if e[0] == 'call' and call_is(e, fn) and {access_path(a) for a in e[3]} == {own, ch}:
                seen_ext = True
                continue
            if access_path(e) != ch:
                return False, False
            a, b2 = (own, ch) if fn == 'max' else (ch, own)   # a < b  =>  take the child's value
            cmpd = decisions(sc_b, lambda fc: fc[0] == 'rel' and fc[1] in ('lt', 'le') and access_path(fc[2]) == a and access_path(fc[3]) == b2)
            unset = decisions(sc_b, lambda fc: fc[0] == 'rel' and fc[1] == 'eq' and any(
                access_path(x) == own and is_const(y, 0) for x, y in ((fc[2], fc[3]), (fc[3], fc[2]))))
            if any(d['true'] is not None and edge_dominates(sc_b, (d['block'], d['true']), pos[0]) for d in cmpd):
                seen_ext = True
            elif fn == 'min' and any(d['true'] is not None and edge_dominates(sc_b, (d['block'], d['true']), pos[0]) for d in unset):
                seen_unset = True
            else:
                return False, False
        return seen_ext, seen_unset
    ok1 = extremum('last_epoch', 'max')[0]
    m_ext, m_unset = extremum('min_descendant_epoch', 'min')
    ok2 = m_ext and m_unset
    ctx.ob('C01.R.epoch_bookkeeping', 'RF-GUARD', ok1 and ok2, sc_b.path, '%s:%s' % (sc_b.file, sc_b.line),
           'set_child: last_epoch = max(own, child), min_descendant_epoch = min(own, child) (child\'s when unset)' if ok1 and ok2 else
           'set_child epoch bookkeeping changed: last_epoch <- %s ; min_descendant_epoch <- %s' % ([show(e)[:60] for e in le], [show(e)[:60] for e in me]),
           key='RF-GUARD|set_child.bookkeeping')


def tree_effects_unconditional(ctx, pfx):
    """the three node operations the insertion relies on cannot silently do nothing: set_child links the child on
    every Ok path, update_hash assigns the hash of every non-leaf node, write_to_storage stores the record"""
    from rules import storage_shared as ss
    prog = ctx.prog
    sc = prog.one('akd::tree_node::TreeNode::set_child')
    eff = ss._field_assign_blocks(sc, 'self', 'left_child') + ss._field_assign_blocks(sc, 'self', 'right_child')
    ss.must_do(ctx, pfx + '.R.set_child_unconditional', 'RF-ORDER', sc, eff, 'set_child stores the child label in left_child / right_child',
               key='RF-ORDER|set_child_unconditional')
    par = ss._field_assign_blocks(sc, 'child_node', 'parent')
    ss.must_do(ctx, pfx + '.R.set_child_parent', 'RF-ORDER', sc, par, 'set_child records itself as the child\'s parent', key='RF-ORDER|set_child_parent')
    uh = prog.fn_and_inner('akd::tree_node::TreeNode::update_hash')
    eff = ss._field_assign_blocks(uh, 'self', 'hash')
    leaf = []
    for v in variant_edges(uh, lambda x: access_path(x) == 'self.node_type'):
        tg = dict(v['edges'])
        for val, nm in v['names'].items():
            tg.setdefault(nm, v['else'])
        if 'Leaf' in tg:
            leaf.append((v['block'], tg['Leaf']))
    ss.must_do(ctx, pfx + '.R.update_hash_assigns', 'RF-ORDER', uh, eff, 'update_hash assigns self.hash for every non-leaf node',
               bypass_edges=leaf, key='RF-ORDER|update_hash_assigns')
    ws = prog.fn_and_inner('akd::tree_node::TreeNode::write_to_storage')
    eff = [ev['pos'][0] for ev, c in find_events(ws, 'TreeNodeWithPreviousValue::write_to_storage')]
    ss.must_do(ctx, pfx + '.R.write_to_storage_stores', 'RF-ORDER', ws, eff, 'TreeNode::write_to_storage stores the (latest, previous) record',
               key='RF-ORDER|write_to_storage_stores')


def units_directory(ctx, pfx, prefixes=('akd::directory::', 'akd::append_only_zks::', 'akd::tree_node::', 'akd::helper_structs', 'akd::storage::types::')):
    prog = ctx.prog
    sites = 0
    found = []
    for p, b in ds.nontest_bodies(prog, ('akd', 'akd_core')):
        if not p.startswith(prefixes) and not p.startswith(('akd_core::verify::', 'akd_core::proto::', 'akd_core::utils::')):
            continue
        if p.startswith('akd_core::utils::get_marker_versions') or '::specs::' in p:
            continue

        def rep(kind, key, where, detail, p=p):
            found.append((p, kind, key, where, detail))
        sites += units.check_body(prog, b, rep)
    for p, kind, key, where, detail in found:
        ctx.ob('%s.UNIT[%s:%s]' % (pfx, p.split('::{closure')[0].split('::')[-1], key), 'RF-UNIT', False, p, where, detail,
               key='RF-UNIT|%s|%s|%s' % (p.split('::{closure')[0], kind, key))
    ctx.ob('%s.UNIT.sites' % pfx, 'RF-UNIT', sites >= 80, 'akd', None,
           '%d epoch/version-dimensioned sites inspected in directory, tree, verifier and proto code, %d mismatches' % (sites, len(found)),
           key='RF-UNIT|%s|sites' % pfx)
