"""Rules over akd/src/directory.rs and append_only_zks.rs shared by C01–C04,
C10, C12, C13, C14, C20: fork/join, transaction bracket, single snapshot,
error discipline, call-graph effects."""
from analysis.rulelib import *
from analysis.mir import leaves, calls_in, show, walk, short, term_is, call_is, future_calls, is_future_type, PLUMBING
from rules import storage_shared as ss

D = 'akd::directory::Directory::'
AZ = 'akd::append_only_zks::Azks::'
WRITE_LEAVES = ('akd::storage::manager::StorageManager::set', 'akd::storage::manager::StorageManager::batch_set',
                'akd::storage::transaction::Transaction::set', 'akd::storage::transaction::Transaction::batch_set',
                'akd::storage::Database::set', 'akd::storage::Database::batch_set',
                'akd::storage::manager::StorageManager::commit_transaction')
REQUESTS = ('lookup', 'batch_lookup', 'key_history', 'audit', 'get_epoch_hash')
SNAP_FETCH = ('Directory::retrieve_azks', 'Directory::get_azks_from_storage')


def nontest_bodies(prog, crates=('akd', 'akd_core')):
    for p, b in sorted(prog.bodies.items()):
        if b.crate not in crates or '::tests' in p or 'test_utils' in p or '::proto::specs' in p or p.startswith('akd::storage::tests'):
            continue
        yield p, b


def can_write(prog, root):
    seen, parent = prog.reachable([root])
    hit = [n for n in seen if n in WRITE_LEAVES]
    return hit, parent


# ---------------------------------------------------------------- RF-JOIN

def join_rules(ctx, pfx, want_writer_rule=True):
    prog = ctx.prog
    n = 0
    for p, b in nontest_bodies(prog):
        for pos, t in b.call_sites():
            if not term_is(t, ('spawn::spawn', 'tokio::task::spawn', 'tokio::spawn')):
                continue
            n += 1
            base = p.split('::{closure')[0]
            name = base.split('::')[-1]
            oid = '%s.JOIN[%s]' % (pfx, name)
            site = pos[0]
            joins = []
            for ev in b.events():
                if ev['kind'] != 'await':
                    continue
                if any(isinstance(c, tuple) and c[0] == 'call' and call_is(c, 'spawn') and c[4] == site
                       for c in future_calls(ev['fut'])):
                    joins.append(ev)
            if not joins:
                ctx.ob(oid, 'RF-JOIN', False, b.path, b.loc(pos), 'spawned task is never awaited in this function',
                       key='RF-JOIN|%s|nojoin' % base)
                continue
            jb = [j['pos'][0] for j in joins]
            start = (t['t'], 0)
            ks = b.exits(start, avoid_blocks=jb)
            okexit = ks - {'Err', 'Diverge'}
            # is the spawned future a writer?
            fut = b.expr_op(t['args'][0], pos)
            clo = [x[1] for x in walk(fut) if x[0] == 'closure']
            writer = []
            for c in clo:
                hit, _ = can_write(prog, c)
                writer += hit
            if okexit:
                ctx.ob(oid, 'RF-JOIN', False, b.path, b.loc(pos),
                       'a non-failure exit is reachable without joining the spawned task (exit kinds %s)' % sorted(ks),
                       key='RF-JOIN|%s|ok-exit' % base)
            elif writer and want_writer_rule and ks:
                ctx.ob(oid, 'RF-JOIN', False, b.path, b.loc(pos),
                       'the spawned task can write storage (%s) but failure exits are reachable without joining or aborting it '
                       '(join at line %s): after the caller has rolled back, the detached task writes directly to cache and database'
                       % (short(writer[0]), joins[0]['line']), key='RF-JOIN|%s|err-exit-writer' % base)
            else:
                ctx.ob(oid, 'RF-JOIN', True, b.path, b.loc(pos),
                       'spawned %s task is joined (line %s) before every %s' % (
                           'writer' if writer else 'read-only', joins[0]['line'], 'exit' if writer else 'non-failure exit'))
            # the joined result is used only after the join: uses of set_child/update_hash dominated — by construction of dataflow
    # JoinSet in akd_core (parallel VRF)
    for p, b in nontest_bodies(prog):
        sp = [(pos, t) for pos, t in b.call_sites() if term_is(t, 'JoinSet::spawn')]
        if not sp:
            continue
        n += 1
        base = p.split('::{closure')[0]
        jn = [ev for ev, c in find_events(b, 'JoinSet::join_next')]
        ok = bool(jn)
        if ok:
            # loop exit only on None of join_next: the Ok exit is dominated by the join_next poll
            okb = [pos[0] for pos, e in ok_aggregates(b)]
            ok = all(b.blk_dominates(jn[0]['pos'][0], x) for x in okb) and bool(okb)
        ctx.ob('%s.JOIN[%s:JoinSet]' % (pfx, base.split('::')[-1]), 'RF-JOIN', ok, b.path, b.loc(sp[0][0]),
               'JoinSet tasks are drained by join_next before Ok is returned' if ok else 'JoinSet tasks are not drained before the result is returned',
               key='RF-JOIN|%s|joinset' % base)
    # the JoinSet of the parallel VRF derivation exists with parallel_vrf only
    need = 5 if 'parallel_vrf' in prog.features.get('akd', []) else 4
    ctx.ob('%s.JOIN.count' % pfx, 'FLOOR', n >= need, 'akd', None, '%d fork sites analysed (expected >= %d)' % (n, need))


# ---------------------------------------------------------------- RF-ERR

def err_discipline(ctx, pfx, prefixes, exceptions=()):
    """every Result produced by a call (sync or awaited) in the listed modules
    is used (propagated, matched, converted or passed on); plain discards are
    violations unless listed in `exceptions` = {(fn base path, callee short)}."""
    prog = ctx.prog
    n = 0
    bad = []
    used_exc = set()
    for p, b in nontest_bodies(prog):
        if not p.startswith(tuple(prefixes)):
            continue
        uses = local_uses(b)
        for pos, t in b.call_sites():
            fn = t.get('fn')
            rty = t.get('rty', '')
            val = None
            callee = None
            if fn == 'core::future::future::Future::poll':
                if 'Poll<std::result::Result<' not in rty:
                    continue
                # payload local: assignments reading (_r as Ready).0
                d = t['dest'][0]
                pay = [s['p'][0] for ppos, s in b.stmts() if s.get('k') == 'assign' and s['r']['k'] == 'use' and
                       (s['r']['o'].get('m') or s['r']['o'].get('c') or [None])[0] == d and len(s['p']) == 1]
                fut = b.expr_op(t['args'][0], pos)
                cs = [c for c in future_calls(fut) if isinstance(c, tuple) and c[0] == 'call']
                callee = short(cs[0][2] or cs[0][1]) if cs else 'future'
                val = pay
            elif fn in PLUMBING or fn is None:
                continue
            elif rty.startswith('std::result::Result<') and not is_future_type(rty):
                val = [t['dest'][0]] if len(t['dest']) == 1 else None
                callee = short(t.get('res') or fn)
                if callee and (callee.endswith('::map_err') or callee.startswith('fmt::') or '::fmt' in callee or callee.endswith('Formatter::write_fmt')
                               or callee.endswith('::write_str')):
                    continue
            else:
                continue
            if val is None:
                continue
            n += 1
            if not val or all(discarded(b, v, uses, set()) for v in val):
                base = p.split('::{closure')[0]
                if (base, callee) in exceptions:
                    used_exc.add((base, callee))
                    continue
                bad.append((base, callee, b.loc(pos)))
    for base, callee, where in bad:
        ctx.ob('%s.ERR[%s:%s]' % (pfx, base.split('::')[-1], callee), 'RF-ERR', False, base, where,
               'the Result of %s is discarded (not propagated, matched or converted)' % callee, key='RF-ERR|%s|%s' % (base, callee))
    ctx.ob('%s.ERR.sites' % pfx, 'RF-ERR', n >= 20, ','.join(prefixes), None,
           '%d Result-producing call sites inspected, %d discarded, %d named exceptions in use' % (n, len(bad), len(used_exc)),
           key='RF-ERR|%s|sites' % pfx)
    for e in exceptions:
        ctx.ob('%s.ERR.exception[%s:%s]' % (pfx, e[0].split('::')[-1], e[1]), 'RF-ERR', True, e[0], None,
               'named exception%s: %s' % ('' if e in used_exc else ' (not in use on this tree)', exceptions[e] if isinstance(exceptions, dict) else ''),
               nontrivial=False)
    err_swallow(ctx, pfx, prefixes, SWALLOW_EXC)


# sites where an error is deliberately turned into "absent", each confirmed by reading
SWALLOW_EXC = {
    ('akd::append_only_zks::Azks::get_next_node_in_child_path_from_cache', 'TreeNodeWithPreviousValue::determine_node_to_get.ok'):
        'cache-only greedy preload walk: a node that is not usable at this epoch just ends the walk (nothing is proven from it)',
    ('akd::directory::Directory::key_history', 'Directory::build_lookup_info.match'):
        'preload_history only: a state whose lookup info cannot be built is not preloaded; the proof itself is built later with `?`',
    ('akd::tree_node::TreeNodeWithPreviousValue::batch_get_appropriate_tree_node_from_storage', 'TreeNodeWithPreviousValue::determine_node_to_get.match'):
        'batch get used by preloading: nodes not available at the target epoch are left out of the preloaded set',
}


WS_ERR = ('errors::', 'akd_core::verify::VerificationError', 'VerificationError', 'VrfError', 'ConversionError')
SWALLOW_ADAPTORS = ('core::result::Result::ok', 'core::result::Result::is_ok', 'core::result::Result::is_err',
                    'core::result::Result::unwrap_or', 'core::result::Result::unwrap_or_default',
                    'core::result::Result::unwrap_or_else', 'core::result::Result::map_or', 'core::result::Result::map_or_else',
                    'core::result::Result::or', 'core::result::Result::or_else', 'core::result::Result::into_iter',
                    'core::result::Result::iter')


def _err_type(ty):
    """error type of a `Result<T, E>` type string if E is one of the workspace's error types"""
    ty = (ty or '').replace('&', '').strip()
    if not ty.startswith('std::result::Result<') and not ty.startswith('core::result::Result<'):
        return None
    inner = ty[ty.index('<') + 1:-1]
    depth, cut = 0, None
    for i, c in enumerate(inner):
        if c in '<([':
            depth += 1
        elif c in '>)]':
            depth -= 1
        elif c == ',' and depth == 0:
            cut = i
    if cut is None:
        return None
    e = inner[cut + 1:].strip()
    return e if any(w in e for w in WS_ERR) else None


def err_swallow(ctx, pfx, prefixes, exceptions, min_sites=5):
    """RF-ERR (matched/converted half): a `Result<_, workspace error>` obtained in the listed modules is never turned
    into a non-error outcome wholesale.  Two shapes are inspected on every run:
      (1) adaptors that drop the error (`.ok()`, `.is_ok()`, `.unwrap_or*()`, `.map_or*()`, `.or*()`);
      (2) a `match`/`if let` on the Result whose Err side can reach a non-failing exit without first dispatching on
          the error's kind, or whose dispatch sends the catch-all arm to a non-failing exit (specific kinds such as
          NotFound may be handled; everything else must stay an error).
    `exceptions` = {(function, what): reason}: sites confirmed by reading (cache-only preload walks etc.)."""
    prog = ctx.prog
    n = 0
    used = set()
    bad = []
    for p, b in nontest_bodies(prog):
        if not p.startswith(tuple(prefixes)):
            continue
        base = p.split('::{closure')[0]
        locs = b.raw['locals']

        def lty(op):
            q = op.get('c') or op.get('m')
            return locs[q[0]]['ty'] if q and len(q) == 1 and q[0] < len(locs) else None

        def src(local, pos):
            e = b._expr_local(local, (), pos, 0)
            cs = [c for c in strip_result(e) if c[0] == 'call' and not (short(c[2] or c[1]) or '').endswith(('map_err', 'or_else'))]
            return short(cs[0][2] or cs[0][1]) if cs else '?'
        # (1) adaptors
        for pos, t in b.call_sites():
            if t.get('fn') in SWALLOW_ADAPTORS and t['args'] and _err_type(lty(t['args'][0])):
                n += 1
                m = t['fn'].split('::')[-1]
                if m in ('is_err', 'is_ok'):
                    # `if r.is_err() { return Err(..) }` converts the error, it does not drop it
                    conv = False
                    for g in b.guards():
                        c = g['cond']
                        if g['fail'] and c[0] == 'call' and c[1] == t['fn'] and c[4] == pos[0]:
                            conv = any(fc[0] == 'pred' and fc[3] is (m == 'is_err') for fc in failconds(b, g))
                    if conv:
                        continue
                q = t['args'][0].get('c') or t['args'][0].get('m')
                what = '%s.%s' % (src(q[0], pos), t['fn'].split('::')[-1])
                if (base, what) in exceptions:
                    used.add((base, what))
                else:
                    bad.append((base, what, b.loc(pos), 'the error of %s is dropped by .%s()' % (what.rsplit('.', 1)[0], t['fn'].split('::')[-1])))
        # (2) matches
        dsc = {}
        for pos, st in b.stmts():
            if st.get('k') == 'assign' and st['r']['k'] == 'discr' and len(st['p']) == 1:
                dsc[st['p'][0]] = (pos, st['r'])
        for sb, t in b.switches():
            q = t['d'].get('m') or t['d'].get('c')
            if not q or len(q) != 1 or q[0] not in dsc:
                continue
            dpos, r = dsc[q[0]]
            if r.get('adt') != 'Result' or len(r['p']) != 1 or not _err_type(locs[r['p'][0]]['ty'] if r['p'][0] < len(locs) else None):
                continue
            rl = r['p'][0]
            names = dict((v, nm) for v, nm in r['vars'])
            tg = {names.get(v, str(v)): tb for v, tb in t['vals']}
            errt = tg.get('Err', t['else'] if 'Err' not in tg else None)
            if errt is None:
                continue
            n += 1
            known = frozenset({(rl, 'Err')})   # on this side the scrutinee is an Err (prunes a later `scrutinee?`)
            ks = b.exits((errt, 0), facts=known)
            if not (ks - {'Err', 'Diverge'}):
                continue
            # error-kind dispatches reachable from the Err side
            kind_sw = []
            for sb2, t2 in b.switches():
                q2 = t2['d'].get('m') or t2['d'].get('c')
                if q2 and len(q2) == 1 and q2[0] in dsc:
                    r2 = dsc[q2[0]][1]
                    if r2.get('adt') != 'Result' and r2['p'][0] == rl and len(r2['p']) > 1 and r2['p'][1] == {'v': 'Err'}:
                        kind_sw.append((sb2, t2, r2))
            what = '%s.match' % src(rl, dpos)
            reason = None
            free = b.exits((errt, 0), facts=known, avoid_blocks=[x[0] for x in kind_sw])
            if free - {'Err', 'Diverge'}:
                reason = 'the Err side of the match on %s reaches a non-failing exit without looking at the error kind' % what.rsplit('.', 1)[0]
            else:
                for sb2, t2, r2 in kind_sw:
                    ke = b.exits((t2['else'], 0), facts=known)
                    listed = {v for v, _ in t2['vals']}
                    allv = {v for v, _ in r2['vars']}
                    if (allv - listed) and (ke - {'Err', 'Diverge'}):
                        reason = 'the catch-all arm of the error-kind match on %s reaches a non-failing exit (only named kinds may be handled)' % what.rsplit('.', 1)[0]
            if reason:
                if (base, what) in exceptions:
                    used.add((base, what))
                else:
                    bad.append((base, what, '%s:%s' % (b.file, t.get('l')), reason))
    seen = set()
    for base, what, where, reason in bad:
        if (base, what) in seen:
            continue
        seen.add((base, what))
        ctx.ob('%s.ERR.swallow[%s:%s]' % (pfx, base.split('::')[-1], what), 'RF-ERR', False, base, where, reason,
               key='RF-ERR|swallow|%s|%s' % (base, what))
    ctx.ob('%s.ERR.swallow.sites' % pfx, 'RF-ERR', n >= min_sites, ','.join(prefixes), None,
           '%d matches/adaptors on Result<_, workspace error> inspected, %d swallow the error, %d named exceptions in use' % (n, len(seen), len(used)),
           key='RF-ERR|%s|swallow.sites' % pfx)
    for e in exceptions:
        ctx.ob('%s.ERR.swallow.exception[%s:%s]' % (pfx, e[0].split('::')[-1], e[1]), 'RF-ERR', True, e[0], None,
               'named exception%s: %s' % ('' if e in used else ' (not in use on this tree)', exceptions[e]), nontrivial=False)


def local_uses(body):
    """local -> list of (kind, pos) real uses (operands), excluding drops/deads/mentions"""
    u = {}

    def add(p, kind, pos):
        if p:
            u.setdefault(p[0], []).append((kind, pos, p))
    for pos, s in body.stmts():
        k = s.get('k')
        if k == 'assign':
            r = s['r']
            for key in ('o', 'a', 'b'):
                if key in r and isinstance(r[key], dict):
                    add(r[key].get('c') or r[key].get('m'), ('assign', tuple(s['p'][:1]), len(s['p'])), pos)
            if 'p' in r:
                add(r['p'], ('ref' if r['k'] in ('ref', 'rawptr') else 'discr', tuple(s['p'][:1]), len(s['p'])), pos)
            for o in r.get('ops', []):
                add(o.get('c') or o.get('m'), ('agg', tuple(s['p'][:1]), len(s['p'])), pos)
        elif k == 'call':
            for a in s['args']:
                add(a.get('c') or a.get('m'), ('arg', s.get('res') or s.get('fn'), tuple(s['dest'][:1])), pos)
        elif k == 'switch':
            add(s['d'].get('c') or s['d'].get('m'), ('switch',), pos)
        elif k == 'yield':
            add(s['v'].get('c') or s['v'].get('m'), ('yield',), pos)
    return u


def discarded(body, local, uses, seen):
    """value in `local` never reaches a decision, call argument (other than a
    trivially discarding adaptor) or the return place"""
    if local in seen:
        return True
    seen.add(local)
    if local in body.ret_locals():
        return False
    for kind, pos, place in uses.get(local, []):
        k = kind[0]
        if k == 'switch' or k == 'yield':
            return False
        if k == 'arg':
            callee = short(kind[1]) or ''
            if callee.endswith('Result::ok') or callee.endswith('Result::is_ok') or callee.endswith('Result::is_err') or callee.endswith('Result::err'):
                d = kind[2]
                if d and not discarded(body, d[0], uses, seen):
                    return False
                continue
            return False
        if k in ('assign', 'agg', 'ref', 'discr'):
            tgt = kind[1]
            if tgt and not discarded(body, tgt[0], uses, seen):
                return False
    return True


# ---------------------------------------------------------------- transaction bracket (C10)

def transaction_bracket(ctx, pfx):
    prog = ctx.prog
    b = prog.fn_and_inner(D + 'publish')
    bg = [g for g in b.guards() if g['fail'] and any(
        fc[0] == 'pred' and fc[1].endswith('begin_transaction') and fc[3] is False for fc in failconds(b, g))]
    if not bg:
        ctx.ob(pfx + '.BRACKET.begin', 'RF-ERR', False, b.path, '%s:%s' % (b.file, b.line),
               'the bool returned by begin_transaction is not branched on (a refused begin must fail the publish)',
               key='RF-ERR|BRACKET.begin')
        return None
    g = bg[0]
    ctx.ob(pfx + '.BRACKET.begin', 'RF-ERR', True, b.path, '%s:%s' % (b.file, g['line']), 'publish fails when begin_transaction is refused')
    start = (g['pass'][0][1], 0)
    closers = [ev for cal in ('StorageManager::commit_transaction', 'StorageManager::rollback_transaction') for ev, c in find_events(b, cal)]
    # checked summary: `?` on the in-transaction batch_set / set cannot fail
    avoid_e = []
    for cal, name in (('StorageManager::batch_set', 'batch_set'), ('StorageManager::set', 'set')):
        evs = find_events(b, cal)
        if not evs:
            continue
        sm = prog.fn_and_inner(ss.SM + name)
        dec = decisions(sm, lambda fc: fc[0] == 'pred' and fc[1].endswith('is_transaction_active') and fc[3] is True)
        infallible = False
        if dec and dec[0]['true'] is not None:
            ks = sm.exits((dec[0]['true'], 0))
            infallible = ks == {'Ok'}
            # and no fallible call before the decision (only the is_empty early return)
            pre = sm.exits((0, 0), avoid_blocks=[dec[0]['block']])
            infallible = infallible and not (pre - {'Ok'})
        ctx.ob('%s.BRACKET.summary[%s]' % (pfx, name), 'RF-ORDER', infallible, sm.path, '%s:%s' % (sm.file, sm.line),
               'inside a transaction StorageManager::%s only appends to the log and returns Ok (its `?` in publish cannot fire)' % name
               if infallible else 'StorageManager::%s can fail inside a transaction: publish\'s `?` on it would leave the transaction open' % name)
        if infallible:
            for ev, c in evs:
                if not b.blk_dominates(g['block'], ev['pos'][0]):
                    continue
                qg = ss.q_guard_of(b, ev, cal)
                if qg:
                    for v, tb in qg['fail']:
                        avoid_e.append((qg['block'], tb))
    ks = b.exits(start, avoid_blocks=[e['pos'][0] for e in closers], avoid_edges=avoid_e)
    ks -= {'Diverge'}
    ctx.ob(pfx + '.BRACKET.closed', 'RF-ORDER', not ks, b.path, '%s:%s' % (b.file, g['line']),
           'from a successful begin_transaction every exit passes commit_transaction or rollback_transaction' if not ks else
           'an exit (%s) is reachable after begin_transaction without commit or rollback: the transaction stays open and '
           'later publishes are refused' % sorted(ks), key='RF-ORDER|BRACKET.closed')
    # all storage writes of publish lie inside the bracket
    outside = []
    seen_w = 0
    for ev in b.events():
        for c in ev['calls']:
            if not (isinstance(c, tuple) and c[0] == 'call'):
                continue
            tgt = c[2] or c[1]
            if tgt is None:
                continue
            direct = tgt in WRITE_LEAVES
            hit = []
            if not direct and tgt in prog.bodies:
                hit, _ = can_write(prog, tgt)
            if direct or hit:
                if short(tgt) in ('StorageManager::commit_transaction',):
                    continue
                seen_w += 1
                if not edge_dominates(b, (g['block'], g['pass'][0][1]), ev['pos'][0]):
                    outside.append('%s (line %s)' % (short(tgt), ev['line']))
    ctx.ob(pfx + '.BRACKET.writes_inside', 'RF-EFFECT', not outside and seen_w >= 2, b.path, '%s:%s' % (b.file, b.line),
           'every storage-writing call of publish (%d) is dominated by the successful begin_transaction' % seen_w if not outside else
           'storage is written outside the transaction: %s' % outside, key='RF-EFFECT|BRACKET.writes_inside')
    return g


def commit_is_last_fallible(ctx, pfx):
    """after commit_transaction has succeeded publish must not fail any more: an
    error returned after the durable write reports failure for a publish that took effect"""
    prog = ctx.prog
    b = prog.fn_and_inner(D + 'publish')
    ev = find_events(b, 'StorageManager::commit_transaction')
    if not ev:
        ctx.ob(pfx + '.ORDER.commit_last', 'RF-ORDER', False, b.path, '%s:%s' % (b.file, b.line), 'publish does not commit', key='RF-ORDER|commit_last|nocommit')
        return
    site = ev[0][1][4]
    ok_t = None
    for g in b.guards():
        c = g['cond']
        if c[0] == 'discr' and any(call_is(x, 'StorageManager::commit_transaction') and x[4] == site for x in strip_result(c[1])):
            names = variant_names(b, g)
            for v, tb in g['term']['vals']:
                if names.get(v) in ('Ok', 'Continue'):
                    ok_t = tb
            if ok_t is None and names:
                listed = {v for v, tb in g['term']['vals']}
                if any(n in ('Ok', 'Continue') for val, n in names.items() if val not in listed):
                    ok_t = g['term']['else']
    if ok_t is None:
        ctx.ob(pfx + '.ORDER.commit_last', 'RF-ORDER', False, b.path, '%s:%s' % (b.file, ev[0][0]['line']),
               'cannot find the success branch of commit_transaction', key='RF-ORDER|commit_last|nobranch')
        return
    ks = b.exits((ok_t, 0)) - {'Diverge'}
    ok = ks <= {'Ok'}
    ctx.ob(pfx + '.ORDER.commit_last', 'RF-ORDER', ok, b.path, '%s:%s' % (b.file, ev[0][0]['line']),
           'after a successful commit_transaction publish can only return Ok' if ok else
           'publish can still return an error after commit_transaction succeeded (exit kinds %s): the caller is told the publish '
           'failed although the new epoch is durable' % sorted(ks), key='RF-ORDER|commit_last')


# ---------------------------------------------------------------- RF-SNAP

def snapshot_rules(ctx, pfx, requests=REQUESTS):
    """Within one request the epoch record is fetched exactly once, and proof
    generation, value-state bounds and the returned EpochHash derive from it."""
    prog = ctx.prog
    for r in requests:
        b = prog.fn_and_inner(D + r)
        fetches = [(ev, c) for cal in SNAP_FETCH for ev, c in find_events(b, cal)]
        oid = '%s.SNAP[%s]' % (pfx, r)
        if len(fetches) != 1 or b.in_loop(fetches[0][0]['pos'][0]):
            ctx.ob(oid + '.once', 'RF-SNAP', False, b.path, '%s:%s' % (b.file, b.line),
                   'the epoch record is fetched %d times in the request body (must be exactly once, outside loops)' % len(fetches),
                   key='RF-SNAP|%s|entry-count' % r)
            continue
        ctx.ob(oid + '.once', 'RF-SNAP', True, b.path, '%s:%s' % (b.file, fetches[0][0]['line']), 'one epoch-record fetch in the request body')
        # no further fetch anywhere below the entry
        isfetch = lambda n: short(n.split('::{closure')[0]) in SNAP_FETCH
        seen, parent = prog.reachable([b.path], stop=isfetch)
        for n in sorted(seen):
            if n == b.path or n not in prog.bodies or isfetch(n):
                continue
            nb = prog.bodies[n]
            if nb.crate != 'akd':
                continue
            ex = [(ev, c) for cal in SNAP_FETCH + ('StorageManager::get_direct',) for ev, c in find_events(nb, cal)]
            ex = [(ev, c) for ev, c in ex if not call_is(c, 'StorageManager::get_direct') or 'Azks' in show(c)]
            az = [t for pos, t in nb.call_sites() if term_is(t, ('StorageManager::get', 'StorageManager::get_direct')) and
                  any(g.endswith('append_only_zks::Azks') for g in t.get('gen', []))]
            if ex or az:
                base = n.split('::{closure')[0]
                line = ex[0][0]['line'] if ex else az[0].get('l')
                ctx.ob('%s.again[%s]' % (oid, base.split('::')[-1]), 'RF-SNAP', False, nb.path, '%s:%s' % (nb.file, line),
                       'the epoch record is read again inside %s (called via %s): sub-proofs may come from a later epoch than the '
                       'EpochHash returned by %s' % (short(base), ' -> '.join(short(x) for x in prog.path_to(parent, n)[-3:]), r),
                       key='RF-SNAP|%s|again|%s' % (r, base))
        snap = fetches[0][1]
        # the snapshot is read through the same (cached) view as the nodes: an epoch record fetched past the cache
        # (`get_azks_from_storage(_, ignore_cache = true)`, which only the change poller may do, under the write lock)
        # can be newer than the cached nodes the request then walks (seeded change C04-r2-a)
        uncached = call_is(snap, 'Directory::get_azks_from_storage') and not is_const(arg(snap, 1), 0)
        ctx.ob(oid + '.cached_view', 'RF-SNAP', not uncached, b.path, '%s:%s' % (b.file, fetches[0][0]['line']),
               'the epoch record is read through the cache-consistent path' if not uncached else
               'the request reads the epoch record past the cache (ignore_cache) but its nodes through the cache: on a lagging '
               'cached reader the two disagree', key='RF-SNAP|%s|cached_view' % r)
        # the epoch record is read FIRST: a value-state read placed before it can miss a version that a publish commits
        # in between, while the (later) snapshot epoch already covers it (seeded change C03-r2-a)
        early = [(ev, c) for cal in ('StorageManager::get_user_data', 'StorageManager::get_user_state', 'StorageManager::get_user_state_versions',
                                     'Directory::get_lookup_info', 'Directory::build_lookup_info')
                 for ev, c in find_events(b, cal) if not b.blk_dominates(fetches[0][0]['pos'][0], ev['pos'][0])]
        ctx.ob(oid + '.first', 'RF-SNAP', not early, b.path, '%s:%s' % (b.file, early[0][0]['line'] if early else fetches[0][0]['line']),
               'no value-state read precedes the epoch-record fetch' if not early else
               'value states are read (%s) before the epoch record: a commit landing in between yields a snapshot epoch whose newest '
               'version is missing from the states' % short(early[0][1][2] or early[0][1][1]), key='RF-SNAP|%s|first' % r)
        # proof generation receivers and node-fetch epochs derive from the snapshot
        n_recv = 0
        for nb in [b] + [prog.bodies[n] for n in sorted(seen) if n in prog.bodies and n.startswith(D) and n != b.path]:
            for ev in nb.events():
                for c in ev['calls']:
                    if isinstance(c, tuple) and c[0] == 'call' and (c[1] or '').startswith(AZ) and c[3]:
                        recv = arg(c, 0)
                        n_recv += 1
                        ok = (nb is b and snapshot_derived(recv, snap)) or (nb is not b and access_path(recv) in ('current_azks', 'azks'))
                        if not ok:
                            ctx.ob('%s.recv[%s:%s]' % (oid, nb.path.split('::')[-2], short(c[1])), 'RF-SNAP', False, nb.path,
                                   '%s:%s' % (nb.file, ev['line']), 'proof generation on %s, not on the request\'s snapshot' % show(recv)[:100],
                                   key='RF-SNAP|%s|recv|%s|%s' % (r, nb.path.split('::{closure')[0], short(c[1])))
        ctx.ob(oid + '.recv', 'RF-SNAP', n_recv >= 1, b.path, '%s:%s' % (b.file, b.line),
               '%d proof-generation calls use the request snapshot as receiver' % n_recv, key='RF-SNAP|%s|recv-count' % r)
        # returned EpochHash
        if r != 'audit':
            good = False
            for pos, e in ok_aggregates(b):
                for x in walk(e):
                    if x[0] == 'agg' and x[1] == 'EpochHash':
                        f = dict(x[3])
                        e0, e1 = f.get('0'), f.get('1')
                        good = bool(e0 and e1) and e0[0] == 'call' and call_is(e0, 'get_latest_epoch') and snapshot_derived(arg(e0, 0), snap) \
                            and has_call(e1, 'get_root_hash') and snapshot_derived(arg(next(calls_in(e1, 'get_root_hash')), 0), snap)
            ctx.ob(oid + '.epochhash', 'RF-SNAP', good, b.path, '%s:%s' % (b.file, b.line),
                   'returned EpochHash = (snapshot.latest_epoch, root hash of the snapshot)' if good else
                   'returned EpochHash is not (latest_epoch, root hash) of the single snapshot', key='RF-SNAP|%s|epochhash' % r)


def snapshot_derived(e, snap):
    """e is the snapshot value itself (the awaited, ?-unwrapped fetch)"""
    while e[0] in ('try', 'await', 'mutby'):
        e = e[1] if e[0] != 'mutby' else e[2]
    return e == snap


def request_paths_write_free(ctx, pfx):
    prog = ctx.prog
    for r in REQUESTS:
        b = prog.fn_and_inner(D + r)
        hit, parent = can_write(prog, b.path)
        # cache fills are allowed; database/log writes are not
        hit = [h for h in hit if h in WRITE_LEAVES]
        ctx.ob('%s.EFFECT.readonly[%s]' % (pfx, r), 'RF-EFFECT', not hit, b.path, '%s:%s' % (b.file, b.line),
               'no database / log write is reachable from %s' % r if not hit else
               'a storage write is reachable from read request %s: %s' % (r, ' -> '.join(short(x) for x in prog.path_to(parent, hit[0]))),
               key='RF-EFFECT|readonly|%s' % r)


# ---------------------------------------------------------------- lock regions (C12, C13)

def await_result_locals(body, ev):
    """locals that (transitively by moves) hold the value produced by await event ev"""
    t = body.blocks[ev['pos'][0]]['t']
    d = t['dest'][0]
    out = set()
    frontier = {d}
    for _ in range(6):
        nxt = set()
        for pos, s in body.stmts():
            if s.get('k') == 'assign' and s['r']['k'] == 'use' and len(s['p']) == 1:
                src = s['r']['o'].get('m') or s['r']['o'].get('c')
                if src and src[0] in frontier and s['p'][0] not in out:
                    nxt.add(s['p'][0])
        out |= nxt
        frontier = nxt
        if not nxt:
            break
    return out


def guard_region(body, lock_names=('Mutex::lock', 'RwLock::write')):
    """awaited exclusive-lock acquisitions whose guard is bound to a named
    local: list of dict(ev, local, name, lock (access path), drops [blocks])"""
    out = []
    for cal in lock_names:
        for ev, c in find_events(body, cal):
            if ev['kind'] != 'await':
                continue
            ls = await_result_locals(body, ev)
            named = [l for l in ls if body.raw['locals'][l]['u'] and body.names().get(l) not in (None, 'result')]
            if not named:
                continue
            g = named[0]
            drops = [pos[0] for pos, s in body.stmts() if s.get('k') == 'drop' and s['p'] == [g]]
            # the guard moved away (`drop(guard)`, `let other = guard`, passed to a call) also ends the region here
            for pos, t in body.call_sites():
                if any(a.get('m') == [g] for a in t.get('args', [])):
                    drops.append(pos[0])
            for pos, st in body.stmts():
                if st.get('k') == 'assign':
                    r = st['r']
                    ops = [r.get('o'), r.get('a'), r.get('b')] + list(r.get('ops', []))
                    if any(isinstance(o, dict) and o.get('m') == [g] for o in ops):
                        drops.append(pos[0])
            out.append({'ev': ev, 'local': g, 'name': body.names().get(g), 'lock': access_path(arg(c, 0)), 'drops': drops, 'call': c})
    return out


def held_until(body, region, target_block):
    """the guard of `region` is not dropped on any path from its acquisition to target_block"""
    acq = region['ev']['pos'][0]
    if not body.blk_dominates(acq, target_block):
        return False
    for d in region['drops']:
        # a drop that lies on a path acquisition -> target
        if d in body._reach_from(acq) and target_block in body.reach_avoiding([d], avoid_blocks=[acq]) and d != target_block:
            # only a violation if the drop itself is reachable from acq without passing target first
            if d in body.reach_avoiding(body.succ(acq), avoid_blocks=[target_block]):
                return False
    return True


# ---------------------------------------------------------------- empty element set leaves the tree untouched

def empty_batch_noop(ctx, pfx):
    """Azks::batch_insert_nodes starts the recursive insertion at the root (which re-hashes and rewrites the root
    node) only for a non-empty element set.  The auditor rebuilds the epoch-s tree from the proof's unchanged nodes;
    for s = 0 (and for every tree whose start has no unchanged node) that set is empty and the tree must stay the
    empty tree with the canonical empty-root hash (seeded change C04-r1-a removed the emptiness test)."""
    prog = ctx.prog
    bi = prog.fn_and_inner(AZ + 'batch_insert_nodes')
    emp = decisions(bi, lambda fc: fc[0] == 'pred' and fc[1].endswith('is_empty') and fc[3] is True and
                    (has_call(fc[2][0], 'AzksElementSet::from') or has_leaf(fc[2][0], 'nodes')))
    acts = [ev for cal in ('recursive_batch_insert_nodes', 'TreeNode::write_to_storage') for ev, c in find_events(bi, cal)]
    ok = bool(emp) and emp[0]['false'] is not None and len(acts) >= 2 and \
        all(edge_dominates(bi, (emp[0]['block'], emp[0]['false']), ev['pos'][0]) for ev in acts)
    ctx.ob(pfx + '.I.empty_batch_noop', 'RF-ORDER', ok, bi.path, '%s:%s' % (bi.file, emp[0]['line'] if emp else bi.line),
           'the recursive insertion and the root rewrite happen only for a non-empty element set' if ok else
           'an empty element set still runs the recursive insertion / rewrites the root (the empty tree no longer keeps the empty-root hash)',
           key='RF-ORDER|empty_batch_noop')
