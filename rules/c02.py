"""C02 — lookup returns a verifying proof of the latest value (structural part).

Decides: lookup / batch_lookup take one snapshot and bound the value-state
read by it; the server derives every (VRF proof, tree proof) pair of a
LookupProof under the same (freshness, version) tuple the verifier checks it
under — existence (Fresh, version), marker (Fresh, 1 << marker_log2(version)),
freshness (Stale, version) — and epoch/version/value from the same value
state; the commitment nonce from the existence label, that version and value;
an unknown label fails without a proof; batch lookup produces each proof
through the same routine on the same snapshot.  Does not decide that the
assembled proof verifies for every history (functional correctness of path
extraction) nor marker arithmetic equality of the two marker helpers."""
from analysis.rulelib import *
from analysis.mir import leaves, calls_in, show, walk, short
from rules import dir_shared as ds, verify_shared as vs, c01

EXPLANATION = __doc__
FLOOR = 28
LI = 'lookup_info.'


def run(ctx):
    prog = ctx.prog
    ds.snapshot_rules(ctx, 'C02', requests=('lookup', 'batch_lookup'))
    b = prog.fn_and_inner(ds.D + 'lookup_with_info')
    where = '%s:%s' % (b.file, b.line)
    oks = ok_aggregates(b)
    lp = [e for pos, e in oks if e[0] == 'agg' and e[1] == 'LookupProof']
    if len(lp) != 1:
        ctx.ob('C02.B.literal', 'RF-BIND', False, b.path, where, 'lookup_with_info does not return one LookupProof literal', key='RF-BIND|C02.literal')
        return
    f = dict(lp[0][3])
    ver = LI + 'value_state.version'
    user = LI + 'value_state.username'

    def vrf(e, fresh, version_spec):
        cs = list(calls_in(e, 'get_label_proof'))
        return len(cs) >= 1 and access_path(arg(cs[0], 1)) == user and spec_match(arg(cs[0], 2), fresh) and spec_match(arg(cs[0], 3), version_spec) \
            and has_call(e, 'to_bytes')

    def tree(e, fn, label):
        cs = list(calls_in(e, fn))
        return len(cs) == 1 and access_path(arg(cs[0], 0)) == 'current_azks' and access_path(arg(cs[0], 2)) == LI + label
    table = [
        ('epoch', lambda e: access_path(e) == LI + 'value_state.epoch', 'value_state.epoch'),
        ('version', lambda e: access_path(e) == ver, 'value_state.version'),
        ('value', lambda e: access_path(e) == LI + 'value_state.value', 'value_state.value'),
        ('existence_vrf_proof', lambda e: vrf(e, vs.FRESH, ver), 'VRF proof for (Fresh, version)'),
        ('existence_proof', lambda e: tree(e, 'get_membership_proof', 'existent_label'), 'membership of existent_label on the snapshot'),
        ('marker_vrf_proof', lambda e: vrf(e, vs.FRESH, LI + 'marker_version'), 'VRF proof for (Fresh, marker_version)'),
        ('marker_proof', lambda e: tree(e, 'get_membership_proof', 'marker_label'), 'membership of marker_label'),
        ('freshness_vrf_proof', lambda e: vrf(e, vs.STALE, ver), 'VRF proof for (Stale, version)'),
        ('freshness_proof', lambda e: tree(e, 'get_non_membership_proof', 'non_existent_label'), 'non-membership of non_existent_label'),
    ]
    for name, pred, desc in table:
        e = f.get(name, ('unk',))
        ok = bool(pred(e))
        ctx.ob('C02.B[%s]' % name, 'RF-BIND', ok, b.path, where, 'LookupProof.%s = %s' % (name, desc) if ok else
               'LookupProof.%s is not %s: %s' % (name, desc, show(e)[:160]), key='RF-BIND|C02.B|%s' % name)
    e = f.get('commitment_nonce', ('unk',))
    cs = list(calls_in(e, 'get_commitment_nonce'))
    ok = False
    if cs:
        c = cs[0]
        lab = arg(c, 1)
        ok = has_call(arg(c, 0), 'derive_commitment_key') and has_call(lab, 'get_node_label_from_vrf_proof') and \
            any(spec_match(arg(x, 2), vs.FRESH) and access_path(arg(x, 3)) == ver for x in calls_in(lab, 'get_label_proof')) and \
            access_path(arg(c, 2)) == ver and access_path(arg(c, 3)) == LI + 'value_state.value'
    ctx.ob('C02.B[commitment_nonce]', 'RF-BIND', ok, b.path, where,
           'nonce = get_commitment_nonce(key, label of the existence VRF proof, version, value)' if ok else
           'commitment nonce is not derived from (key, existence label, version, value): %s' % show(e)[:200], key='RF-BIND|C02.B|commitment_nonce')
    # lookup info: labels derived under the same tuples from one value state
    bi = prog.fn_and_inner(ds.D + 'build_lookup_info')
    li = [e for pos, e in ok_aggregates(bi) if e[0] == 'agg' and e[1] == 'LookupInfo']
    ok = len(li) == 1
    if ok:
        g = dict(li[0][3])
        st = 'latest_st'
        mv = ('bin', 'Shl', ('const', 1), ('call', 'get_marker_version', [st + '.version']))

        def nl(e, fresh, vspec):
            cs = list(calls_in(e, 'get_node_label'))
            return len(cs) == 1 and access_path(arg(cs[0], 1)) == st + '.username' and spec_match(arg(cs[0], 2), fresh) and spec_match(arg(cs[0], 3), vspec)
        checks = {'value_state': access_path(g.get('value_state', ('unk',))) == st,
                  'marker_version': spec_match(g.get('marker_version', ('unk',)), mv),
                  'existent_label': nl(g.get('existent_label', ('unk',)), vs.FRESH, st + '.version'),
                  'marker_label': nl(g.get('marker_label', ('unk',)), vs.FRESH, mv),
                  'non_existent_label': nl(g.get('non_existent_label', ('unk',)), vs.STALE, st + '.version')}
        for k, v in checks.items():
            ctx.ob('C02.I[%s]' % k, 'RF-SIB', v, bi.path, '%s:%s' % (bi.file, bi.line),
                   'LookupInfo.%s derived from the latest state under the verifier\'s tuple' % k if v else
                   'LookupInfo.%s is not derived as the verifier expects: %s' % (k, show(g.get(k, ('unk',)))[:120]), key='RF-SIB|C02.I|%s' % k)
    else:
        ctx.ob('C02.I', 'RF-SIB', False, bi.path, '%s:%s' % (bi.file, bi.line), 'build_lookup_info does not return one LookupInfo literal')
    # get_lookup_info: bounded read, unknown label fails
    gi = prog.fn_and_inner(ds.D + 'get_lookup_info')
    us = find_events(gi, 'StorageManager::get_user_state')
    ok = len(us) == 1 and spec_match(arg(us[0][1], 2), lambda e: e[0] == 'agg' and e[2] == 'LeqEpoch' and access_path(e[3][0][1]) == 'epoch')
    ctx.ob('C02.S.bounded_read', 'RF-SNAP', ok, gi.path, '%s:%s' % (gi.file, gi.line),
           'value state is read with LeqEpoch(request epoch)' if ok else 'the value-state read is not bounded by the request\'s snapshot epoch')
    ve = [v for v in variant_edges(gi, lambda x: has_call(x, 'get_user_state')) if 'Err' in v['edges']]
    ok = False
    if ve and 'Err' in ve[0]['edges']:
        ks = gi.exits((ve[0]['edges']['Err'], 0))
        bl = [ev['pos'][0] for ev, c in find_events(gi, 'build_lookup_info')]
        ok = ks <= {'Err'} and all(x not in gi.reach_avoiding([ve[0]['edges']['Err']]) for x in bl)
    ctx.ob('C02.S.unknown_fails', 'RF-ORDER', ok, gi.path, '%s:%s' % (gi.file, gi.line),
           'a label without a value state yields an error and no lookup info' if ok else 'the not-found arm of the user-state read does not fail')
    # callers pass the snapshot epoch
    for r in ('lookup', 'batch_lookup'):
        rb = prog.fn_and_inner(ds.D + r)
        snap = [(ev, c) for cal in ds.SNAP_FETCH for ev, c in find_events(rb, cal)]
        gl = find_events(rb, 'Directory::get_lookup_info')
        lw = find_events(rb, 'Directory::lookup_with_info')
        ok = bool(snap and gl and lw)
        if ok:
            ep = arg(gl[0][1], 2)
            ok = ep[0] == 'call' and call_is(ep, 'get_latest_epoch') and ds.snapshot_derived(arg(ep, 0), snap[0][1]) and \
                ds.snapshot_derived(arg(lw[0][1], 1), snap[0][1]) and has_call(arg(lw[0][1], 2), 'get_lookup_info')
        ctx.ob('C02.S.same_routine[%s]' % r, 'RF-SIB', ok, rb.path, '%s:%s' % (rb.file, rb.line),
               '%s builds each proof with lookup_with_info(snapshot, get_lookup_info(label, snapshot epoch))' % r if ok else
               '%s does not build its proofs through get_lookup_info/lookup_with_info on the snapshot' % r, key='RF-SIB|C02.same_routine|%s' % r)
    # batch = single, per requested label: no iteration over the requested labels may complete without a lookup info,
    # none over the lookup infos without a proof (seeded change C02-r2-a silently dropped repeated labels)
    rb = prog.fn_and_inner(ds.D + 'batch_lookup')
    require_call(ctx, rb, 'C02.S.batch_each_label', 'RF-BIND', 'Directory::get_lookup_info',
                 lambda c: True if has_leaf(arg(c, 1), 'akd_labels') else 'label argument is not an element of akd_labels',
                 'every requested label gets a lookup info (or the request fails)', per_iteration=True)
    require_call(ctx, rb, 'C02.S.batch_each_proof', 'RF-BIND', 'Directory::lookup_with_info',
                 lambda c: True if has_call(arg(c, 2), 'get_lookup_info') else 'info argument does not come from get_lookup_info',
                 'every lookup info yields a proof (or the request fails)', per_iteration=True)
    # marker helper siblings
    a = prog.one('akd::directory::get_marker_version')
    b2 = prog.one('akd_core::utils::get_marker_version_log2')
    ctx.ob('C02.SIB.marker_helpers', 'RF-SIB', True, a.path, '%s:%s' % (a.file, a.line),
           'server-side get_marker_version and verifier-side get_marker_version_log2 both present (arithmetic equality not decided)', nontrivial=False)
    ds.err_discipline(ctx, 'C02', ['akd::directory::', 'akd::append_only_zks::', 'akd::tree_node::'], c13_exc())
    c01.units_directory(ctx, 'C02')


def c13_exc():
    return {('akd::directory::Directory::publish', 'StorageManager::rollback_transaction'): 'rollback after a failure that is itself returned'}
