"""C04 — every epoch range can be audited against the published root hashes
(structural part).

Decides: refusal predicates (start >= end, end > latest) guard proof generation
in Directory::audit and Azks::get_append_only_proof; the pruning predicates of
the proof walk (last_epoch <= start: emit as unchanged, root: emit nothing;
min_descendant_epoch > end: skip; leaf: inserted) and their exact complement
in the preload filter; the epoch bookkeeping of set_child the predicates rely
on; one (ep, ep+1) step per epoch of the range with ep recorded; nodes fetched
as of the snapshot's latest epoch; the spawned walk is joined.  Does not decide
that the produced proof verifies for every range and history."""
from analysis.rulelib import *
from analysis.mir import leaves, calls_in, show, walk, short
from rules import dir_shared as ds, c01

EXPLANATION = __doc__
FLOOR = 18


def run(ctx):
    prog = ctx.prog
    au = prog.fn_and_inner(ds.D + 'audit')
    ds.snapshot_rules(ctx, 'C04', requests=('audit',))
    snap = [(ev, c) for cal in ds.SNAP_FETCH for ev, c in find_events(au, cal)]
    gen = find_events(au, 'Azks::get_append_only_proof')
    cur = lambda e: e[0] == 'call' and call_is(e, 'get_latest_epoch')
    require_guard(ctx, au, 'C04.A.start_lt_end', 'RF-GUARD',
                  lambda fc: fc[0] == 'rel' and fc[1] == 'le' and access_path(fc[2]) == 'audit_end_ep' and access_path(fc[3]) == 'audit_start_ep',
                  'audit refuses start >= end')
    require_guard(ctx, au, 'C04.A.end_le_current', 'RF-GUARD',
                  lambda fc: fc[0] == 'rel' and fc[1] == 'lt' and cur(fc[2]) and access_path(fc[3]) == 'audit_end_ep',
                  'audit refuses end > current epoch')
    ok = bool(gen) and [access_path(a) for a in gen[0][1][3][2:4]] == ['audit_start_ep', 'audit_end_ep'] and bool(snap) and \
        ds.snapshot_derived(arg(gen[0][1], 0), snap[0][1])
    ctx.ob('C04.A.forward', 'RF-BIND', ok, au.path, '%s:%s' % (au.file, au.line), 'audit(start, end) generates the proof for exactly (start, end) on the snapshot' if ok
           else 'audit does not forward (start, end) unchanged to get_append_only_proof on its snapshot')
    gp = prog.fn_and_inner(ds.AZ + 'get_append_only_proof')
    lat = lambda e: e[0] == 'call' and call_is(e, 'get_latest_epoch') and access_path(arg(e, 0)) == 'self'
    require_guard(ctx, gp, 'C04.G.end_le_latest', 'RF-GUARD',
                  lambda fc: fc[0] == 'rel' and fc[1] == 'lt' and lat(fc[2]) and access_path(fc[3]) == 'end_epoch', 'refuse end > latest epoch')
    require_guard(ctx, gp, 'C04.G.start_lt_end', 'RF-GUARD',
                  lambda fc: fc[0] == 'rel' and fc[1] == 'le' and access_path(fc[2]) == 'end_epoch' and access_path(fc[3]) == 'start_epoch',
                  'refuse end <= start')
    # per-epoch step
    hp = find_events(gp, 'Azks::get_append_only_proof_helper')
    ok = False
    detail = 'no call to the proof walk'
    if hp:
        c = hp[0][1]
        ep = arg(c, 3)
        rng = ep[1] if ep[0] == 'elem' else ('unk',)
        okr = rng[0] == 'agg' and rng[1] == 'Range' and access_path(dict(rng[3])['start']) == 'start_epoch' and access_path(dict(rng[3])['end']) == 'end_epoch'
        oke = spec_match(arg(c, 4), ('bin', 'Add', lambda x: x == ep, ('const', 1)))
        okl = lat(arg(c, 0))
        root = arg(c, 2)
        okn = any(call_is(x, 'get_from_storage') and has_call(arg(x, 1), 'NodeLabel::root') and lat(arg(x, 2)) for x in calls_in(root, 'get_from_storage'))
        ok = okr and oke and okl and okn and gp.in_loop(hp[0][0]['pos'][0])
        detail = 'for ep in start..end: walk(latest, root as of latest, ep, ep + 1)' if ok else \
            'the per-epoch walk is not (latest, root@latest, ep, ep+1) for ep in start..end (range=%s step=%s latest=%s root=%s)' % (okr, oke, okl, okn)
    ctx.ob('C04.G.step', 'RF-BIND', ok, gp.path, '%s:%s' % (gp.file, gp.line), detail, key='RF-BIND|C04.step')
    ap = [e for pos, e in ok_aggregates(gp) if e[0] == 'agg' and e[1] == 'AppendOnlyProof']
    ok = False
    if len(ap) == 1 and hp:
        f = dict(ap[0][3])
        ep = arg(hp[0][1], 3)
        pe = [arg(m, 1) for m in _muts(f.get('epochs', ('unk',))) if call_is(m, 'Vec::push')]
        pp = [arg(m, 1) for m in _muts(f.get('proofs', ('unk',))) if call_is(m, 'Vec::push')]
        ok = len(pe) == 1 and pe[0] == ep and len(pp) == 1 and pp[0][0] == 'agg' and pp[0][1] == 'SingleAppendOnlyProof' and \
            show(dict(pp[0][3])['inserted']).endswith('.1') and show(dict(pp[0][3])['unchanged_nodes']).endswith('.0') and \
            has_call(dict(pp[0][3])['inserted'], 'get_append_only_proof_helper')
    ctx.ob('C04.G.collect', 'RF-BIND', ok, gp.path, '%s:%s' % (gp.file, gp.line),
           'each step pushes {unchanged = walk.0, inserted = walk.1} and its epoch ep' if ok else 'proof / epoch lists are not built one entry per step')
    ds.empty_batch_noop(ctx, 'C04')
    walk_rules(ctx)
    c01_set_child(ctx)
    c01.tree_effects_unconditional(ctx, 'C04')
    ds.join_rules(ctx, 'C04', want_writer_rule=False)


def _muts(e):
    out = []
    while e[0] == 'mutby':
        out += list(e[1])
        e = e[2]
    return out


def c01_set_child(ctx):
    sub = c01.SubSilent(ctx)
    # evaluate only the set_child bookkeeping obligation of C01's rehash rules under this property
    class Only:
        def __init__(s):
            s.prog, s.progs, s.tier = ctx.prog, ctx.progs, ctx.tier

        def ob(s, oid, rule, ok, *a, **k):
            if oid.endswith('epoch_bookkeeping'):
                return ctx.ob('C04.' + oid.split('.', 1)[1], rule, ok, *a, **k)
            return True

        def count(s, *a):
            pass
    c01.rehash_rules(Only())


def walk_rules(ctx):
    prog = ctx.prog
    h = prog.fn_and_inner(ds.AZ + 'get_append_only_proof_helper')
    where = '%s:%s' % (h.file, h.line)
    le = lambda e: e[0] == 'call' and call_is(e, 'TreeNode::get_latest_epoch') and access_path(arg(e, 0)) == 'node'
    d1 = decisions(h, lambda fc: fc[0] == 'rel' and fc[1] == 'le' and le(fc[2]) and access_path(fc[3]) == 'start_epoch')
    d2 = decisions(h, lambda fc: fc[0] == 'rel' and fc[1] == 'lt' and access_path(fc[2]) == 'end_epoch' and access_path(fc[3]) == 'node.min_descendant_epoch')
    ok1 = False
    if d1 and d1[0]['true'] is not None:
        # on the unchanged side: returns Ok without descending; pushes the node itself (non-root) to `unchanged`
        reach = h.reach_avoiding([d1[0]['true']], avoid_blocks=[])
        desc = [ev for ev in h.events() if ev['pos'][0] in reach and any(isinstance(c, tuple) and c[0] == 'call' and
                call_is(c, ('get_append_only_proof_helper', 'get_from_storage', 'spawn')) for c in ev['calls'])]
        pushes = [(ev, c) for ev, c in find_events(h, 'Vec::push') if ev['pos'][0] in reach]
        okp = any(spec_match(arg(c, 1), lambda e: e[0] == 'agg' and e[1] == 'AzksElement' and access_path(dict(e[3])['label']) == 'node.label' and
                             has_call(dict(e[3])['value'], 'node_to_azks_value')) for ev, c in pushes)
        root = decisions(h, lambda fc: (fc[0] == 'rel' and fc[1] == 'eq' and any('TreeNodeType::Root' in show(x) for x in fc[2:4]) and
                                        any(access_path(x) == 'node.node_type' for x in fc[2:4])))
        ok1 = not desc and okp and bool(root) and edge_dominates(h, (d1[0]['block'], d1[0]['true']), root[0]['block'])
    ctx.ob('C04.W.unchanged', 'RF-GUARD', ok1, h.path, where,
           'node.last_epoch <= start: the subtree is emitted as one unchanged node (nothing for the root) and not descended' if ok1 else
           'the `last_epoch <= start` pruning decision or its action changed', key='RF-GUARD|C04.W.unchanged')
    ok2 = False
    if d2 and d2[0]['true'] is not None:
        reach = h.reach_avoiding([d2[0]['true']], avoid_blocks=[])
        acts = [ev for ev in h.events() if ev['pos'][0] in reach and any(isinstance(c, tuple) and c[0] == 'call' and
                call_is(c, ('get_append_only_proof_helper', 'get_from_storage', 'spawn', 'Vec::push')) for c in ev['calls'])]
        ok2 = not acts and bool(d1) and d1[0]['false'] is not None and edge_dominates(h, (d1[0]['block'], d1[0]['false']), d2[0]['block'])
    ctx.ob('C04.W.born_later', 'RF-GUARD', ok2, h.path, where,
           'node.min_descendant_epoch > end: the subtree is skipped entirely' if ok2 else 'the `min_descendant_epoch > end` pruning decision or its action changed',
           key='RF-GUARD|C04.W.born_later')
    leaf = decisions(h, lambda fc: fc[0] == 'rel' and fc[1] == 'eq' and any('TreeNodeType::Leaf' in show(x) for x in fc[2:4]) and
                     any(access_path(x) == 'node.node_type' for x in fc[2:4]))
    ok3 = False
    if leaf and leaf[0]['true'] is not None:
        pushes = [(ev, c) for ev, c in find_events(h, 'Vec::push') if edge_dominates(h, (leaf[0]['block'], leaf[0]['true']), ev['pos'][0])]
        ok3 = any(spec_match(arg(c, 1), lambda e: e[0] == 'agg' and e[1] == 'AzksElement' and access_path(dict(e[3])['label']) == 'node.label' and
                             access_path(dict(e[3])['value']) == 'node.hash') for ev, c in pushes)
    ctx.ob('C04.W.leaf', 'RF-GUARD', ok3, h.path, where, 'a changed leaf is emitted as inserted {label, hash}' if ok3 else 'leaf emission changed',
           key='RF-GUARD|C04.W.leaf')
    # a changed interior node is descended on BOTH sides: from the non-leaf side of the leaf decision no Ok return is
    # reachable without passing the dispatch on node.left_child and the dispatch on node.right_child (seeded change
    # C04-r3-a returned early when there is no left child — the root of a young directory may have only a right one)
    okb = False
    det = 'no leaf decision / child dispatches found'
    if leaf and leaf[0]['false'] is not None:
        sides = {}
        for side in ('left_child', 'right_child'):
            sides[side] = [v['block'] for v in variant_edges(h, lambda x, side=side: access_path(x) == 'node.' + side)]
        if all(sides.values()):
            skipped = [side for side, blks in sides.items() if h.exits((leaf[0]['false'], 0), avoid_blocks=blks) - {'Err', 'Diverge'}]
            okb = not skipped
            det = 'both child dispatches lie on every Ok path of the interior-node branch' if okb else \
                'an Ok return of the interior-node branch is reachable without looking at node.%s' % ', node.'.join(skipped)
    ctx.ob('C04.W.both_children', 'RF-ORDER', okb, h.path, where, det, key='RF-ORDER|C04.W.both_children')
    # children fetched as of latest_epoch, recursion with the same range
    rec = [c for ev in h.events() for c in ev['calls'] if isinstance(c, tuple) and c[0] == 'call' and call_is(c, 'get_append_only_proof_helper')]
    clos = prog.children(h.path)
    for cb in clos:
        rec += [c for ev in cb.events() for c in ev['calls'] if isinstance(c, tuple) and c[0] == 'call' and call_is(c, 'get_append_only_proof_helper')]
    ok4 = len(rec) >= 3 and all(access_path(arg(c, 0)) == 'latest_epoch' and access_path(arg(c, 3)) == 'start_epoch' and access_path(arg(c, 4)) == 'end_epoch' and
                                any(access_path(arg(x, 2)) == 'latest_epoch' for x in calls_in(arg(c, 2), 'get_from_storage')) for c in rec)
    ctx.ob('C04.W.recursion', 'RF-SNAP', ok4, h.path, where,
           'children are fetched as of latest_epoch and walked with the same (start, end) (%d recursive calls)' % len(rec) if ok4 else
           'a recursive walk changes the range or fetches the child at another epoch', key='RF-SNAP|C04.W.recursion')
    # preload filter is the complement of the two stop predicates
    pre = prog.fn_and_inner(ds.AZ + 'recursive_preload_audit_nodes')
    flt = None
    for cb in prog.children(pre.path):
        r = result_expr(cb)
        if cb.kind == 'closure' and 'min_descendant_epoch' in show(r) + ''.join(show(g['cond']) for g in cb.guards()):
            flt = cb
    ok5 = False
    if flt is not None:
        conds = []
        for bb, t in flt.switches():
            pos = (bb, len(flt.blocks[bb]['s']))
            conds.append(flt.expr_op(t['d'], pos))
        r = result_expr(flt)
        allc = conds + [x for x in walk(r) if x[0] in ('bin', 'call')]
        txt = [norm_bool(c, True) for c in allc if c[0] in ('bin', 'call', 'un')]
        flat = [x for l in txt for x in l]
        has_a = any(fc[0] == 'rel' and fc[1] == 'lt' and access_path(fc[2]) == 'start_epoch' and 'get_latest_epoch' in show(fc[3]) for fc in flat)
        has_b = any(fc[0] == 'rel' and fc[1] == 'le' and 'min_descendant_epoch' in show(fc[2]) and access_path(fc[3]) == 'end_epoch' for fc in flat)
        has_c = any(fc[0] == 'rel' and fc[1] == 'ne' and any('Leaf' in show(x) for x in fc[2:4]) for fc in flat)
        ok5 = has_a and has_b and has_c
    ctx.ob('C04.W.preload_complement', 'RF-SIB', ok5, pre.path, '%s:%s' % (pre.file, pre.line),
           'preload descends exactly where the walk descends: non-leaf ∧ last_epoch > start ∧ min_descendant_epoch <= end' if ok5 else
           'the audit preload filter is not the complement of the walk\'s stop predicates', key='RF-SIB|C04.preload')
