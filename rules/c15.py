"""C15 — reads inside a storage transaction see pending writes as after commit
(structural part).

Decides: epoch/version dimensions in the storage layer's merge of database and
pending records (RF-UNIT); every StorageManager read API consults the
transaction log, keyed reads consult it before cache and database (RF-SIB /
RF-ORDER); begin is one atomic swap, commit/rollback refuse when inactive,
clear the log before lowering the flag, commit hands over the whole log sorted
by transaction priority (RF-BIND / RF-ORDER); retrieval-flag handling is
exhaustive.  Does not decide equality of query results for all sequences."""
from rules import storage_shared as ss
EXPLANATION = __doc__
FLOOR = 18


def run(ctx):
    ss.units_storage(ctx, 'C15')
    ss.read_apis_merge_log(ctx, 'C15')
    ss.transaction_lifecycle(ctx, 'C15')
    ss.flags_exhaustive(ctx, 'C15')
    ss.begin_has_no_side_effect(ctx, 'C15')
    ss.merge_table(ctx, 'C15')
    ss.find_item_table(ctx, 'C15')
    ss.log_writes_only_when_active(ctx, 'C15')
    ss.write_apis_unconditional(ctx, 'C15')
    # a read inside a transaction must not put pending (uncommitted) data into the cache: it would survive a rollback
    ss.reads_fill_cache_from_db(ctx, 'C15')
    ss.cache_after_db(ctx, 'C15')   # writes inside a transaction do not reach the cache before commit
    from rules import c11
    c11.priority_rules(ctx, 'C15')
