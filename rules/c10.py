"""C10 — a publish that returns an error leaves the directory as it was
(structural part).

Decides: transaction bracket in publish (every exit after a successful begin
passes commit or rollback; the in-transaction `?` is discharged by a checked
summary of StorageManager::{set,batch_set}); every storage write of publish is
inside the bracket; cache fills happen only after the database write
succeeded; no spawned writer task outlives a failed insertion (join on every
exit); no storage/VRF Result on the publish path is discarded.  Does not
decide behaviour under partial database writes."""
from rules import dir_shared as ds, storage_shared as ss
EXPLANATION = __doc__
FLOOR = 16
EXC = {('akd::directory::Directory::publish', 'StorageManager::rollback_transaction'):
       'rollback after a failure that is itself returned to the caller (only fails if no transaction is active)'}


def run(ctx):
    ds.transaction_bracket(ctx, 'C10')
    ds.commit_is_last_fallible(ctx, 'C10')
    ss.cache_after_db(ctx, 'C10')
    ds.join_rules(ctx, 'C10')
    ds.err_discipline(ctx, 'C10', ['akd::directory::', 'akd::append_only_zks::', 'akd::tree_node::', 'akd::storage::manager::'], EXC)
