"""C10 — a publish that returns an error leaves the directory as it was
(structural part).

Decides: transaction bracket in publish (every exit after a successful begin
passes commit or rollback; the in-transaction `?` is discharged by a checked
summary of StorageManager::{set,batch_set}); every storage write of publish is
inside the bracket; cache fills happen only after the database write
succeeded; no spawned writer task outlives a failed insertion (join on every
exit); no storage/VRF Result on the publish path is discarded.  Does not
decide behaviour under partial database writes."""
from rules import dir_shared as ds, storage_shared as ss
EXPLANATION = __doc__
FLOOR = 17
EXC = {('akd::directory::Directory::publish', 'StorageManager::rollback_transaction'):
       'rollback after a failure that is itself returned to the caller (only fails if no transaction is active)'}


def run(ctx):
    ds.transaction_bracket(ctx, 'C10')
    ds.commit_is_last_fallible(ctx, 'C10')
    commit_single_write(ctx)
    from rules import c11
    c11.writes_inside_commit(ctx, 'C10')
    ss.cache_after_db(ctx, 'C10')
    ss.write_apis_unconditional(ctx, 'C10')
    ss.log_writes_only_when_active(ctx, 'C10')
    ss.transaction_lifecycle(ctx, 'C10')   # no transaction left open: rollback/commit always release
    ds.join_rules(ctx, 'C10')
    ds.err_discipline(ctx, 'C10', ['akd::directory::', 'akd::append_only_zks::', 'akd::tree_node::', 'akd::storage::manager::'], EXC)


def commit_single_write(ctx):
    """the property's fault model is "the commit write failing as a whole": the
    commit must hand the database the complete log in ONE batch_set — a second
    write (e.g. the epoch record on its own) can fail after the first succeeded,
    leaving tree nodes of an epoch that was never committed"""
    from analysis.rulelib import find_events, arg, spec_match
    from analysis.mir import show
    prog = ctx.prog
    cm = prog.fn_and_inner(ss.SM + 'commit_transaction')
    ws = [(ev, c) for cal in ss.DB_WRITES for ev, c in find_events(cm, cal)]
    ok = len(ws) == 1 and spec_match(arg(ws[0][1], 1), ('try', ('call', 'Transaction::commit_transaction', ['self.transaction'])))
    ctx.ob('C10.ORDER.commit_single_write', 'RF-ORDER', ok, cm.path, '%s:%s' % (cm.file, cm.line),
           'commit hands the whole sorted log to the database in one batch_set' if ok else
           'commit performs %d database writes / does not write the whole log at once: %s' % (len(ws), [show(c)[:80] for ev, c in ws]),
           key='RF-ORDER|C10.commit_single_write')
