"""C07 — a verifying history proof cannot hide, reorder, invent or misdate
versions: obligation tables of verify_with_history_params, key_history_verify
and verify_single_update_proof (RF-GUARD / RF-BIND / RF-COVER on MIR).

Decides that every listed rejecting check exists with the listed operands,
lies on every path to Ok (per iteration for checks inside loops), and that
each sub-proof verification's Result is propagated; that the previous-version
check uses the same proof.epoch; that marker lists are iterated in full.
Does not decide that the checks suffice (protocol argument) or the marker
arithmetic (C08)."""
from analysis.rulelib import *
from analysis.mir import leaves, calls_in, show, walk
from rules import verify_shared as vs
from rules.c06 import SubCtx, field_of_agg

EXPLANATION = __doc__
FLOOR = 45
H = 'akd_core::verify::history::'
UP = 'proof.update_proofs'


def marker_rules(ctx):
    """decision predicates of get_marker_versions that bound the future marker list
    by the epoch (values touched only through comparisons): a bit-completion
    candidate is included iff candidate <= epoch; the power-of-two run is bounded
    by log2(epoch) inclusive; the skiplist slice ends at the largest entry <= epoch"""
    b = ctx.prog.one('akd_core::utils::get_marker_versions')
    where = '%s:%s' % (b.file, b.line)
    pushes = [(ev, c) for ev, c in find_events(b, 'Vec::push')]
    d = decisions(b, lambda fc: fc[0] == 'rel' and fc[1] == 'le' and access_path(fc[3]) == 'epoch' and has_leaf(fc[2], 'end_version'))
    ok = False
    if d and d[0]['true'] is not None:
        gated = [ev for ev, c in pushes if edge_dominates(b, (d[0]['block'], d[0]['true']), ev['pos'][0]) and arg(c, 1) == strip_mut(d[0]['cond'][2]) or
                 (edge_dominates(b, (d[0]['block'], d[0]['true']), ev['pos'][0]) and has_leaf(arg(c, 1), 'end_version'))]
        # the false side skips only this candidate (no break / return)
        back = d[0]['false'] is not None and d[0]['block'] in b._reach_from(d[0]['false'])
        ok = bool(gated) and back
    ctx.ob('C07.MV.candidate_le_epoch', 'RF-GUARD', ok, b.path, where,
           'a future bit-completion marker is required iff it is <= epoch, and a larger one only skips itself' if ok else
           'the decision `future_version <= epoch => required marker` (skip only that candidate otherwise) changed', key='RF-GUARD|C07.MV.candidate')
    rng = [c for ev in b.events() for c in ev['calls'] if isinstance(c, tuple) and c[0] == 'call' and call_is(c, 'into_iter') or False]
    e = None
    for pos, t in b.call_sites():
        if (short(t.get('res') or t.get('fn')) or '').endswith('::next'):
            it = b.expr_op(t['args'][0], pos)
            x = strip_mut(it)
            if x[0] == 'agg' and x[1] == 'Range' and has_call(dict(x[3])['end'], 'get_marker_version_log2') and has_leaf(dict(x[3])['end'], 'epoch'):
                e = x
    ok = e is not None and spec_match(dict(e[3])['end'], ('bin', 'Add', ('call', 'get_marker_version_log2', ['epoch']), ('const', 1))) and \
        spec_match(dict(e[3])['start'], ('bin', 'Add', ('call', 'get_marker_version_log2', ['end_version']), ('const', 1)))
    ctx.ob('C07.MV.pow2_range', 'RF-GUARD', ok, b.path, where,
           'powers of two are required for exponents log2(end_version)+1 ..= log2(epoch)' if ok else
           'the exponent range of required power-of-two markers changed: %s' % (show(e)[:160] if e else 'not found'), key='RF-GUARD|C07.MV.pow2')


def run(ctx):
    marker_rules(ctx)
    vh_rules(ctx)
    kh_rules(ctx)
    vs_rules(ctx, 'C07')
    vs.primitives(ctx, 'C07')
    from rules import c05
    c05.nonmembership(SubCtx(ctx, 'C07.inherit.'))


def dep_up(e):
    return has_leaf(e, UP)


def vh_rules(ctx):
    b = ctx.prog.one(H + 'verify_with_history_params')
    R = 'RF-GUARD'
    # `len() == 0` and `is_empty()` have one normal form (rulelib.rel)
    require_guard(ctx, b, 'C07.H1', R, lambda fc: fc[0] == 'pred' and fc[1].endswith('::is_empty') and fc[3] is True and
                  access_path(fc[2][0]) == UP, 'reject an empty update-proof list')

    def adjacent(cur, prev):
        """cur / prev are elements i and i-1 for EVERY i in 1..len (index loop), or the two elements of a sliding
        `windows(2)` — not disjoint chunks, not a stepped range (seeded change C07-r2-a used chunks_exact(2))"""
        tc, tp = show(cur), show(prev)
        if any(w in tc + tp for w in ('chunks', 'step_by', 'skip', 'rchunks')):
            return False
        ic = [c for c in calls_in(cur, 'index')]
        ip = [c for c in calls_in(prev, 'index')]
        if ic and ip:
            i, j = arg(ic[0], 1), arg(ip[0], 1)
            rng = i[1] if i[0] == 'elem' else None
            full = bool(rng) and rng[0] == 'agg' and rng[1] == 'Range' and is_const(dict(rng[3])['start'], 1) and \
                has_call(dict(rng[3])['end'], 'len') and has_leaf(dict(rng[3])['end'], UP)
            return full and j[0] == 'bin' and j[1] == 'Sub' and j[2] == i and is_const(j[3], 1)
        if 'windows' in tc and 'windows' in tp:
            return split_fields(cur)[1].endswith('[1].version') and split_fields(prev)[1].endswith('[0].version')
        return False

    def consecutive(fc):
        if fc[0] != 'rel' or fc[1] != 'ne':
            return False
        for x, y in ((fc[2], fc[3]), (fc[3], fc[2])):
            if x[0] == 'bin' and x[1] == 'Add' and is_const(x[3], 1) and dep_up(x[2]) and show(x[2]).endswith('.version') \
                    and dep_up(y) and show(y).endswith('.version') and y[0] != 'bin' and adjacent(x[2], y):
                return True
        return False
    require_guard(ctx, b, 'C07.H2', R, consecutive, 'reject unless versions are consecutive and decreasing (curr + 1 == prev)',
                  per_iteration=True)
    require_guard(ctx, b, 'C07.H3', R, lambda fc: fc[0] == 'rel' and fc[1] == 'eq' and
                  any(is_const(x, 0) and dep_up(y) and 'version' in show(y) for x, y in ((fc[2], fc[3]), (fc[3], fc[2]))),
                  'reject start_version == 0')
    require_guard(ctx, b, 'C07.H4', R, lambda fc: fc[0] == 'rel' and fc[1] == 'lt' and access_path(fc[2]) == 'current_epoch'
                  and dep_up(fc[3]) and 'version' in show(fc[3]), 'reject end_version > current_epoch')
    ve = variant_edges(b, lambda x: access_path(x) == 'params')
    start_ne_1 = lambda fc: fc[0] == 'rel' and fc[1] == 'ne' and any(
        is_const(x, 1) and dep_up(y) and 'version' in show(y) for x, y in ((fc[2], fc[3]), (fc[3], fc[2])))
    if not ve or 'Complete' not in _targets(ve[0]) or 'MostRecent' not in _targets(ve[0]):
        ctx.ob('C07.H5', R, False, b.path, '%s:%s' % (b.file, b.line), 'no dispatch on HistoryParams {Complete, MostRecent}',
               key='RF-GUARD|C07.H5|dispatch')
    else:
        tg = _targets(ve[0])
        require_guard(ctx, b, 'C07.H5', R, start_ne_1, 'Complete: reject start_version != 1', start=(tg['Complete'], 0))
        rec = lambda e: show(e).startswith('params as MostRecent')
        require_guard(ctx, b, 'C07.H6', R, lambda fc: fc[0] == 'rel' and fc[1] == 'lt' and rec(fc[2]) and has_call(fc[3], 'Vec::len')
                      and dep_up(fc[3]), 'MostRecent(n): reject more than n update proofs', start=(tg['MostRecent'], 0))
        # Less arm: start must be 1
        cmpsw = variant_edges(b, lambda x: x[0] == 'call' and (short(x[2] or x[1]) or '').endswith('::cmp')
                              and has_call(x, 'Vec::len') and any(rec(a) for a in x[3]))
        # the same decision written as a boolean branch: `len < n` (or `len != n`, given H6) selects the side
        # on which start_version must be 1
        fewer = decisions(b, lambda fc: fc[0] == 'rel' and (
            (fc[1] == 'lt' and has_call(fc[2], 'Vec::len') and dep_up(fc[2]) and rec(fc[3])) or
            (fc[1] == 'ne' and any(has_call(x, 'Vec::len') and dep_up(x) and rec(y) for x, y in ((fc[2], fc[3]), (fc[3], fc[2])))))) \
            if not cmpsw else []
        fewer = [d for d in fewer if d['true'] is not None and b.blk_dominates(tg['MostRecent'], d['block'])]
        if cmpsw and 'Less' in _targets(cmpsw[0]):
            require_guard(ctx, b, 'C07.H7', R, start_ne_1, 'MostRecent(n): fewer than n proofs only if start_version == 1',
                          start=(_targets(cmpsw[0])['Less'], 0))
        elif fewer:
            require_guard(ctx, b, 'C07.H7', R, start_ne_1, 'MostRecent(n): fewer than n proofs only if start_version == 1',
                          start=(fewer[0]['true'], 0))
        else:
            ctx.ob('C07.H7', R, False, b.path, '%s:%s' % (b.file, b.line),
                   'MostRecent(n): no comparison of the number of proofs with n selects the fewer-than-n case',
                   key='RF-GUARD|C07.H7|dispatch')

    def lens(f1, f2):
        def p(fc):
            if fc[0] != 'rel' or fc[1] != 'ne':
                return False
            def src(e):
                cs = list(calls_in(e, 'Vec::len'))
                return show(arg(cs[0], 0)) if e[0] == 'call' and cs and cs[0] == e else None
            s = {src(fc[2]), src(fc[3])}
            return all(any(t and w(t) for t in s) for w in (f1, f2)) and None not in s
        return p
    mk = lambda i: (lambda t: 'get_marker_versions' in t and t.endswith('.%d' % i))
    fld = lambda n: (lambda t: t == 'proof.' + n)
    require_guard(ctx, b, 'C07.H8', R, lens(mk(0), fld('past_marker_vrf_proofs')), '#past markers == #past marker VRF proofs')
    require_guard(ctx, b, 'C07.H9', R, lens(fld('past_marker_vrf_proofs'), fld('existence_of_past_marker_proofs')),
                  '#past marker VRF proofs == #past marker existence proofs')
    require_guard(ctx, b, 'C07.H10', R, lens(mk(1), fld('future_marker_vrf_proofs')), '#future markers == #future marker VRF proofs')
    require_guard(ctx, b, 'C07.H11', R, lens(fld('future_marker_vrf_proofs'), fld('non_existence_of_future_marker_proofs')),
                  '#future marker VRF proofs == #future marker non-existence proofs')
    oks = ok_aggregates(b)
    good = bool(oks)
    for pos, e in oks:
        cs = list(calls_in(e, 'get_marker_versions'))
        if not (e[0] == 'tuple' and len(e[1]) == 2 and len(set(cs)) == 1 and dep_up(arg(cs[0], 0)) and dep_up(arg(cs[0], 1))
                and access_path(arg(cs[0], 2)) == 'current_epoch' and show(e[1][0]).endswith('.0') and show(e[1][1]).endswith('.1')):
            good = False
    ctx.ob('C07.H12', 'RF-BIND', good, b.path, '%s:%s' % (b.file, b.line),
           'returns (past, future) = get_marker_versions(start, end, current_epoch)' if good else
           'returned marker lists are not get_marker_versions(start_version, end_version, current_epoch): %s' % [show(e)[:200] for _, e in oks])


def _targets(v):
    d = dict(v['edges'])
    # variants not listed go to else
    for val, nm in v['names'].items():
        d.setdefault(nm, v['else'])
    return d


def kh_rules(ctx):
    b = ctx.prog.one(H + 'key_history_verify')
    vh = require_call(ctx, b, 'C07.K1', 'RF-BIND', 'verify_with_history_params',
                      bind(['current_epoch', 'akd_label', 'proof', lambda e: has_leaf(e, 'verification_params')]),
                      'parameter/shape checks run first and their Result is propagated')
    # the only legitimate bypass: the `None` edge of the "previous epoch" option (first update of the list)
    side = [(v['block'], _targets(v)['None']) for v in variant_edges(b, lambda x: 'epoch' in show(x) and ('Option' in show(x) or x[0] == 'phi'))
            if 'None' in _targets(v)]
    require_guard(ctx, b, 'C07.K2', 'RF-GUARD',
                  lambda fc: fc[0] == 'rel' and fc[1] == 'lt' and access_path(fc[3]) == UP + '[*].epoch' and has_leaf(fc[2], UP + '[*].epoch')
                  and not any(x[0] in ('bin', 'un', 'call') for x in walk(fc[2])),
                  'reject an update whose epoch is greater than the previous (newer) update\'s epoch', per_iteration=True,
                  bypass_edges=side)
    require_call(ctx, b, 'C07.K3', 'RF-BIND', 'verify_single_update_proof',
                 bind(['root_hash', 'vrf_public_key', UP + '[*]', 'akd_label', 'verification_params']),
                 'every update proof is verified', per_iteration=True)

    def marker_loop(oid, callee, idx, vrf, tree, desc):
        def chk(c):
            ver, a5, a6 = arg(c, 4), arg(c, 5), arg(c, 6)
            sv = show(ver)
            if not (ver[0] == 'field' and ver[2] == '1' and ver[1][0] == 'elem' and ver[1][1][0] == 'call' and
                    (short(ver[1][1][2] or ver[1][1][1]) or '').endswith('::enumerate')):
                return 'version argument is not an element of a plain enumerate() over the marker list: %s' % sv[:140]
            its = [ver[1][1]]
            for a in (a5, a6):
                ix = arg(a, 1) if a[0] == 'call' else None
                if not (ix and ix[0] == 'field' and ix[2] == '0' and ix[1] == ver[1]):
                    return 'proof list is not indexed by the loop position'
            src = arg(its[0], 0)
            want = ('field', ('try', None), str(idx))
            if not (src[0] == 'field' and src[2] == str(idx) and src[1][0] == 'try' and has_call(src[1], 'verify_with_history_params')):
                return 'iterates %s, not the full list .%d returned by verify_with_history_params' % (show(src)[:100], idx)
            if not spec_match(arg(c, 3), vs.FRESH):
                return 'freshness is not Fresh'
            if not (a5[0] == 'call' and has_leaf(a5, 'proof.' + vrf) and a6[0] == 'call' and has_leaf(a6, 'proof.' + tree)):
                return 'VRF/tree proofs are not proof.%s[i] / proof.%s[i]' % (vrf, tree)
            if not all(access_path(arg(c, i)) == n for i, n in enumerate(['vrf_public_key', 'root_hash', 'akd_label'])):
                return 'key/root/label arguments differ'
            return True
        require_call(ctx, b, oid, 'RF-BIND', callee, chk, desc, per_iteration=True)
    marker_loop('C07.K4', 'verify_existence', 0, 'past_marker_vrf_proofs', 'existence_of_past_marker_proofs',
                'every past marker version is verified present (Fresh)')
    marker_loop('C07.K5', 'verify_nonexistence', 1, 'future_marker_vrf_proofs', 'non_existence_of_future_marker_proofs',
                'every future marker version is verified absent (Fresh)')
    oks = ok_aggregates(b)
    good = bool(oks)
    for pos, e in oks:
        cs = [c for c in calls_in(e) if (short(c[2] or c[1]) or '').startswith('Vec::') and not call_is(c, 'Vec::new')]
        if not cs or not all(call_is(c, 'Vec::push') and has_call(arg(c, 1), 'verify_single_update_proof') for c in cs):
            good = False
    ctx.ob('C07.K6', 'RF-BIND', good, b.path, '%s:%s' % (b.file, b.line),
           'result list = verified update results in proof order' if good else 'returned list is not built from verify_single_update_proof results only')
    # cover HistoryProof
    lv = guard_leaves(b)
    b2 = ctx.prog.one(H + 'verify_with_history_params')
    lv |= guard_leaves(b2)
    import re
    lv = {re.sub(r'\[[^\]]*\]', '', l) for l in lv}
    adt = [a for a in ctx.prog.adts_by_name.get('HistoryProof', []) if a['path'].startswith('akd_core::types')]
    declared = [f['n'] for a in adt for v in a['variants'] for f in v['fields']]
    ctx.ob('C07.COVER.decl', 'RF-COVER', len(declared) == 5, 'akd_core::types::HistoryProof', None, 'HistoryProof fields = %s' % declared)
    for f in declared:
        p = 'proof.' + f
        ok = any(l == p or l.startswith(p + '.') for l in lv)
        ctx.ob('C07.COVER[%s]' % f, 'RF-COVER', ok, b.path, '%s:%s' % (b.file, b.line),
               'field %s reaches a check' % f if ok else 'field %s of HistoryProof reaches no check' % f)


def vs_rules(ctx, pfx):
    b = ctx.prog.one(H + 'verify_single_update_proof')
    wv = checked_calls(b, 'verify_existence_with_val')
    ex = checked_calls(b, 'verify_existence')
    argsv = bind(['vrf_public_key', 'root_hash', 'akd_label', 'proof.value', 'proof.epoch', 'proof.commitment_nonce', vs.FRESH,
                  'proof.version', 'proof.existence_vrf_proof', 'proof.existence_proof'])
    argse = bind(['vrf_public_key', 'root_hash', 'akd_label', vs.FRESH, 'proof.version', 'proof.existence_vrf_proof', 'proof.existence_proof'])
    wv_ok = [c for c in wv if argsv(c['call']) is True]
    ex_ok = [c for c in ex if argse(c['call']) is True]
    where = '%s:%s' % (b.file, b.line)
    if not wv_ok:
        ctx.ob(pfx + '.S1', 'RF-BIND', False, b.path, where,
               'no propagated verify_existence_with_val(value, epoch, nonce, Fresh, version, …) on the update proof: %s' %
               [argsv(c['call']) for c in wv], key='RF-BIND|%s.S1|missing' % pfx)
    else:
        ks = b.exits((0, 0), avoid_blocks=[c['block'] for c in wv_ok + ex_ok])
        ok = not (ks - {'Err', 'Diverge'})
        ctx.ob(pfx + '.S1', 'RF-BIND', ok, b.path, '%s:%s' % (b.file, wv_ok[0]['line']),
               'every path to Ok verifies existence of (Fresh, version) — with the value, or without it on the tombstone path'
               if ok else 'an Ok exit is reachable without any existence check (%s)' % sorted(ks), key='RF-BIND|%s.S1|bypass' % pfx)
    # S2: value-less existence only under AllowMissingValues ∧ value == TOMBSTONE
    for i, c in enumerate(ex):
        blk = c['call'][4]
        tomb = decisions(b, lambda fc: fc[0] == 'rel' and fc[1] == 'eq' and any(
            has_leaf(x, 'proof.value') and 'TOMBSTONE' in show(y) for x, y in ((fc[2], fc[3]), (fc[3], fc[2]))))
        pv = variant_edges(b, lambda x: access_path(x) == 'params')
        ok1 = any(d['true'] is not None and edge_dominates(b, (d['block'], d['true']), blk) for d in tomb)
        ok2 = False
        for v in pv:
            tg = _targets(v)
            others = [t for n, t in tg.items() if n != 'AllowMissingValues']
            if 'AllowMissingValues' in tg and tg['AllowMissingValues'] not in others and \
                    edge_dominates(b, (v['block'], tg['AllowMissingValues']), blk):
                ok2 = True
        ctx.ob(pfx + '.S2[%d]' % i, 'RF-ORDER', ok1 and ok2, b.path, '%s:%s' % (b.file, c['line']),
               'value-less existence check is taken only under AllowMissingValues ∧ value == TOMBSTONE' if ok1 and ok2 else
               'verify_existence without the value is reachable without %s' % (
                   ' and '.join(n for n, o in (('the value == TOMBSTONE test', ok1), ('the AllowMissingValues opt-in', ok2)) if not o)),
               key='RF-ORDER|%s.S2|%s' % (pfx, 'tomb' if not ok1 else 'optin'))
    if not ex:
        ctx.ob(pfx + '.S2', 'RF-ORDER', True, b.path, where, 'no value-less existence path exists', nontrivial=False)
    # the comparison of the value with TOMBSTONE (= the empty byte string, also a legal published value) only chooses
    # between the two existence checks: it must never decide a rejection by itself — a verifier that did not opt in
    # rejects a tombstoned entry because its hash check fails, and accepts a genuinely empty value whose hash matches
    # (seeded change C20-r2-a added `Default ∧ value == TOMBSTONE => Err`)
    rej = [g for g in b.guards() if g['fail'] and g['cond'][0] != 'discr' and 'TOMBSTONE' in show(g['cond'])]
    ctx.ob(pfx + '.S2.tombstone_never_rejects', 'RF-GUARD', not rej, b.path, '%s:%s' % (b.file, rej[0]['line'] if rej else b.line),
           'no rejection is decided by comparing the value with TOMBSTONE' if not rej else
           'a failing exit is decided by `value == TOMBSTONE` (line %s): genuinely empty values are rejected' % rej[0]['line'],
           key='RF-GUARD|%s.S2|tombstone_never_rejects' % pfx)
    # S3/S4: previous version retired in the same epoch
    dec = decisions(b, lambda fc: fc[0] == 'rel' and access_path(fc[2]) == 'proof.version' and (
        (fc[1] == 'le' and is_const(fc[3], 1)) or (fc[1] == 'lt' and is_const(fc[3], 2))))
    okdec = [d for d in dec if d['true'] is not None and d['false'] is not None]
    if not okdec:
        ctx.ob(pfx + '.S4', 'RF-GUARD', False, b.path, where,
               'no decision `proof.version <= 1` separating first versions from updates', key='RF-GUARD|%s.S4|missing' % pfx)
        start = (0, 0)
        avoid_e = ()
    else:
        d = okdec[0]
        ctx.ob(pfx + '.S4', 'RF-GUARD', True, b.path, '%s:%s' % (b.file, d['line']), 'early Ok only under proof.version <= 1')
        start = (0, 0)
        avoid_e = [(d['block'], d['true'])]
    prev = lambda f: ('try', ('call', 'ok_or_else', ['proof.' + f, None]))
    require_call(ctx, b, pfx + '.S3', 'RF-BIND', 'verify_existence_with_commitment',
                 bind(['vrf_public_key', 'root_hash', 'akd_label', ('call', 'stale_azks_value', []), 'proof.epoch', vs.STALE,
                       ('bin', 'Sub', 'proof.version', ('const', 1)), prev('previous_version_vrf_proof'), prev('previous_version_proof')]),
                 'for version > 1 the stale leaf of version-1 is verified with the SAME proof.epoch', start=start, avoid_edges=avoid_e)
    oks = ok_aggregates(b)
    good = bool(oks)
    for pos, e in oks:
        if not (e[0] == 'agg' and e[1] == 'VerifyResult' and all(access_path(field_of_agg(e, f)) == 'proof.' + f for f in ('epoch', 'version', 'value'))):
            good = False
    ctx.ob(pfx + '.S5', 'RF-UNIT', good, b.path, where, 'VerifyResult{epoch,version,value} are the checked proof fields' if good
           else 'returned VerifyResult fields are not proof.{epoch,version,value}')
    lv = guard_leaves(b)
    adt = [a for a in ctx.prog.adts_by_name.get('UpdateProof', []) if a['path'].startswith('akd_core::types')]
    declared = [f['n'] for a in adt for v in a['variants'] for f in v['fields']]
    ctx.ob(pfx + '.COVER.decl.UpdateProof', 'RF-COVER', len(declared) == 8, 'akd_core::types::UpdateProof', None, 'UpdateProof fields = %s' % declared)
    for f in declared:
        p = 'proof.' + f
        ok = any(l == p or l.startswith(p + '.') for l in lv)
        ctx.ob(pfx + '.COVER[UpdateProof.%s]' % f, 'RF-COVER', ok, b.path, where,
               'field %s reaches a propagated check' % f if ok else 'field %s of UpdateProof reaches no check' % f)
