"""Rules over akd/src/storage (StorageManager, Transaction, TimedCache) shared by
C10, C15, C16."""
from analysis.rulelib import *
from analysis.mir import leaves, calls_in, show, walk, call_is, short
from analysis import units

SM = 'akd::storage::manager::StorageManager::'
TX = 'akd::storage::transaction::Transaction::'
TC_ = 'akd::storage::cache::high_parallelism::TimedCache::'
DB_WRITES = ('Database::set', 'Database::batch_set')
DB_READS = ('Database::get', 'Database::batch_get', 'Database::get_user_state', 'Database::get_user_data',
            'Database::get_user_state_versions')
CACHE_PUTS = ('TimedCache::put', 'TimedCache::batch_put')


def sm_bodies(prog):
    """code-holding bodies of StorageManager's methods: name -> body"""
    out = {}
    for p, b in prog.bodies.items():
        if p.startswith(SM) and b.kind == 'fn':
            name = p[len(SM):]
            if '::' in name:
                continue
            out[name] = prog.fn_and_inner(p)
    return out


def q_guard_of(body, ev, callee):
    """the `?` guard on the Result of the call driven by event ev"""
    site = None
    for c in ev['calls']:
        if isinstance(c, tuple) and c[0] == 'call' and call_is(c, callee):
            site = c[4]
    for g in body.guards():
        cond = g['cond']
        if cond[0] != 'discr':
            continue
        if not (cond[1][0] == 'call' and cond[1][1] == 'core::ops::try_trait::Try::branch'):
            continue
        for c in strip_result(cond[1]):
            if call_is(c, callee) and c[4] == site:
                names = variant_names(body, g)
                cont = [(v, tb) for v, tb in g['term']['vals'] if names.get(v) == 'Continue']
                brk = [(v, tb) for v, tb in g['term']['vals'] if names.get(v) == 'Break']
                if cont:
                    g2 = dict(g)
                    g2['pass'] = cont
                    g2['fail'] = brk
                    return g2
    return None


def cache_after_db(ctx, pfx):
    """RF-ORDER (a): in every StorageManager method that writes the database,
    each cache fill of the written records is dominated by the success edge of
    that database write (finding F4 when violated)."""
    prog = ctx.prog
    n = 0
    for name, b in sorted(sm_bodies(prog).items()):
        ws = [(ev, c) for cal in DB_WRITES for ev, c in find_events(b, cal)]
        if not ws:
            continue
        ps = [(ev, c) for cal in CACHE_PUTS for ev, c in find_events(b, cal)]
        n += 1
        oid = '%s.ORDER.cache_after_db[%s]' % (pfx, name)
        if not ps:
            ctx.ob(oid, 'RF-ORDER', True, b.path, '%s:%s' % (b.file, b.line), 'no direct cache fill next to the database write',
                   nontrivial=False)
            continue
        bad = []
        for pev, pc in ps:
            ok = False
            for wev, wc in ws:
                g = q_guard_of(b, wev, DB_WRITES)
                if g is None:
                    continue
                for v, tb in g['pass']:
                    if edge_dominates(b, (g['block'], tb), pev['pos'][0]):
                        ok = True
            if not ok:
                bad.append(pev)
        if bad:
            ctx.ob(oid, 'RF-ORDER', False, b.path, '%s:%s' % (b.file, bad[0]['line']),
                   'cache is filled (line %s) before the database write has succeeded (write at line %s): after a failed '
                   'write the cached manager serves records the database does not hold' % (bad[0]['line'], ws[0][0]['line']),
                   key='RF-ORDER|cache_after_db|%s' % b.path)
        else:
            ctx.ob(oid, 'RF-ORDER', True, b.path, '%s:%s' % (b.file, ps[0][0]['line']),
                   'cache fill dominated by the success edge of %s' % show(ws[0][1])[:120])
    ctx.ob('%s.ORDER.cache_after_db.count' % pfx, 'FLOOR', n >= 3, SM, None,
           '%d StorageManager methods write the database (expected >= 3: set, batch_set, commit_transaction)' % n)


def write_apis_fill_cache(ctx, pfx):
    """RF-SIB: every StorageManager method that writes the database also puts
    exactly those records into the cache (when a cache is configured), and no
    code outside these methods writes the database."""
    prog = ctx.prog
    for name, b in sorted(sm_bodies(prog).items()):
        ws = [(ev, c) for cal in DB_WRITES for ev, c in find_events(b, cal)]
        if not ws:
            continue
        oid = '%s.SIB.write_fills_cache[%s]' % (pfx, name)
        ps = [(ev, c) for cal in CACHE_PUTS for ev, c in find_events(b, cal)]
        wrec = arg(ws[0][1], 1)
        same = [p for p in ps if arg(p[1], 1) == wrec]
        if not same:
            ctx.ob(oid, 'RF-SIB', False, b.path, '%s:%s' % (b.file, ws[0][0]['line']),
                   'database write of %s is not accompanied by a cache put of the same records (cache would keep a stale copy)'
                   % show(wrec)[:100], key='RF-SIB|write_fills_cache|%s' % b.path)
            continue
        # the put is skipped only when there is no cache
        # (only the `None` edge of the switch on self.cache is a legitimate bypass, not everything below the switch)
        side_e = []
        for v in variant_edges(b, lambda x: access_path(x) == 'self.cache'):
            tgt = dict(v['edges'])
            for val, nm in v['names'].items():
                tgt.setdefault(nm, v['else'])
            if 'None' in tgt:
                side_e.append((v['block'], tgt['None']))
        g = q_guard_of(b, ws[0][0], DB_WRITES)
        wblk = ws[0][0]['pos'][0]
        pblks = [p[0]['pos'][0] for p in same]
        if any(b.blk_dominates(pb, wblk) or pb in b.reach_avoiding([0], avoid_blocks=[wblk]) for pb in pblks):
            # put happens before the write (ordering judged by cache_after_db): only require that it cannot be skipped
            ks = b.exits((0, 0), avoid_blocks=pblks + [wblk], avoid_edges=side_e)
            ok = True
        else:
            start = (g['pass'][0][1], 0) if g else (0, 0)
            ks = b.exits(start, avoid_blocks=pblks, avoid_edges=side_e)
            ok = not (ks - {'Err', 'Diverge'})
        ctx.ob(oid, 'RF-SIB', ok, b.path, '%s:%s' % (b.file, same[0][0]['line']),
               'writes %s to the database and the same records to the cache' % show(wrec)[:80] if ok else
               'after the database write an Ok exit is reachable without the cache put', key='RF-SIB|write_fills_cache|%s' % b.path)
    # who may write the database
    allowed = {SM + n for n in ('set', 'batch_set', 'commit_transaction')}
    bad = []
    n = 0
    for p, b in prog.bodies.items():
        if b.crate != 'akd' or '::tests::' in p or p.startswith('akd::storage::memory') or 'test_utils' in p or '::tests' in p:
            continue
        for cal in DB_WRITES:
            for ev, c in find_events(b, cal):
                n += 1
                base = p.split('::{closure')[0]
                if base not in allowed:
                    bad.append((p, ev['line']))
    ctx.ob('%s.EFFECT.db_writers' % pfx, 'RF-EFFECT', not bad and n >= 3, SM, None,
           'only StorageManager::{set,batch_set,commit_transaction} call Database::{set,batch_set} (%d call sites)' % n if not bad else
           'database written outside the cache-maintaining write APIs: %s' % bad, key='RF-EFFECT|db_writers')


def flush_complete(ctx, pfx):
    prog = ctx.prog
    adt = [a for a in prog.adts_by_name.get('TimedCache', []) if a['path'].startswith('akd::storage::cache::high_parallelism')]
    if not adt:
        raise AnchorError('TimedCache ADT')
    holding = [f['n'] for v in adt[0]['variants'] for f in v['fields'] if 'DbRecord' in f['ty'] or 'CachedItem' in f['ty']]
    fl = prog.fn_and_inner(TC_ + 'flush')
    ctx.ob('%s.COVER.flush.fields' % pfx, 'RF-COVER', len(holding) >= 2, adt[0]['path'], '%s:%s' % (adt[0]['file'], adt[0]['line']),
           'record-holding fields of TimedCache: %s' % holding)
    for f in holding:
        cleared = False
        cblocks = []
        for ev in fl.events():
            for c in ev['calls']:
                if isinstance(c, tuple) and c[0] == 'call' and (short(c[2] or c[1]) or '').endswith('::clear') and \
                        access_path(arg(c, 0)) == 'self.' + f:
                    cleared = True
                    cblocks.append(ev['pos'][0])
        for pos, s in fl.stmts():
            if s.get('k') == 'assign' and '*' in s['p'][1:]:
                rv = fl._expr_rvalue(s['r'], pos, 0)
                if not (rv[0] == 'agg' and rv[1] == 'Option' and rv[2] == 'None'):
                    continue
                base = fl.expr_place([s['p'][0]], pos)
                if has_leaf(base, 'self.' + f) and any(x[0] == 'call' and (short(x[2] or x[1]) or '').endswith('::write') for x in walk(base)):
                    cleared = True
                    cblocks.append(pos[0])
        # ... on EVERY path: a flush that can return early (e.g. while cleaning is disabled) is silently dropped and
        # the never-expiring epoch-record slot keeps serving the stale record (seeded change C16-r1-b)
        skip = bool(cblocks) and bool(fl.exits((0, 0), avoid_blocks=cblocks) - {'Diverge'})
        ctx.ob('%s.COVER.flush[%s]' % (pfx, f), 'RF-COVER', cleared and not skip, fl.path, '%s:%s' % (fl.file, fl.line),
               'flush clears TimedCache.%s on every path' % f if cleared and not skip else
               ('TimedCache::flush can return without clearing `%s` (conditional flush)' % f if cleared else
                'TimedCache::flush leaves record-holding field `%s` untouched' % f),
               key='RF-COVER|flush|%s' % f)


def private_state(ctx, pfx):
    prog = ctx.prog
    for adtname, mod, fields in (('TimedCache', 'akd::storage::cache::high_parallelism', None),
                                 ('StorageManager', 'akd::storage::manager', ['cache', 'transaction', 'db']),
                                 ('Transaction', 'akd::storage::transaction', ['mods', 'active'])):
        adt = [a for a in prog.adts_by_name.get(adtname, []) if a['path'].startswith(mod)]
        if not adt:
            raise AnchorError(adtname)
        for v in adt[0]['variants']:
            for f in v['fields']:
                if fields is not None and f['n'] not in fields:
                    continue
                ok = f['vis'] not in ('pub', 'crate') and not f['vis'].startswith('in:akd::storage::') or f['vis'] == 'in:' + mod
                ok = f['vis'].startswith('in:' + mod)
                ctx.ob('%s.OWN.private[%s.%s]' % (pfx, adtname, f['n']), 'RF-OWN', ok, adt[0]['path'], '%s:%s' % (adt[0]['file'], adt[0]['line']),
                       'field is private to its module (%s)' % f['vis'] if ok else
                       'field %s.%s is visible outside its module (%s): code elsewhere can alter cache/transaction state' % (adtname, f['n'], f['vis']))


def put_unconditional(ctx, pfx):
    """write-through: TimedCache::put / batch_put store every record they are given
    (map insert, or the epoch-record slot) — a skipped put leaves an older entry of
    the same key in place, which keeps being served"""
    prog = ctx.prog
    for fn in ('put', 'batch_put'):
        b = prog.fn_and_inner(TC_ + fn)
        ins = [ev['pos'][0] for ev, c in find_events(b, 'DashMap::insert') if access_path(arg(c, 0)) == 'self.map']
        slot = []
        for pos, s in b.stmts():
            if s.get('k') == 'assign' and '*' in s['p'][1:]:
                rv = b._expr_rvalue(s['r'], pos, 0)
                if rv[0] == 'agg' and rv[1] == 'Option' and rv[2] == 'Some' and has_leaf(b.expr_place([s['p'][0]], pos), 'self.azks'):
                    slot.append(pos[0])
        ok = bool(ins and slot)
        detail = 'no map insert / epoch-record slot write found'
        if ok:
            if fn == 'put':
                ks = b.exits((0, 0), avoid_blocks=ins + slot) - {'Diverge'}
                ok = not ks
                detail = 'every path through put stores the record (map insert or epoch-record slot)' if ok else \
                    'put can return without storing the record (exit kinds %s): a stale entry of the same key stays in the cache' % sorted(ks)
            else:
                hdr = [pos[0] for pos, t in b.call_sites() if (short(t.get('res') or t.get('fn')) or '').endswith('::next')]
                bad = None
                for h in hdr:
                    t = b.blocks[h]['t']
                    bb = t['t']
                    sw = None
                    for _ in range(4):
                        if b.blocks[bb]['t']['k'] == 'switch':
                            sw = bb
                            break
                        nx = b.succ(bb)
                        if len(nx) != 1:
                            break
                        bb = nx[0]
                    if sw is None:
                        continue
                    names = variant_names(b, {'term': b.blocks[sw]['t']})
                    some = [tb for v, tb in b.blocks[sw]['t']['vals'] if names.get(v) == 'Some']
                    if some and h in b.reach_avoiding(some, avoid_blocks=ins + slot):
                        bad = 'an iteration of batch_put can complete without storing its record'
                # the loop itself must be on every path: an early return before it (e.g. "batch larger than the memory
                # limit") leaves older copies of the written records in the cache (seeded change C14-r1-b)
                # (returning early for an EMPTY batch is the one harmless shortcut)
                empty_e = side_edges(b, lambda fc: fc[0] == 'pred' and fc[1].endswith('is_empty') and fc[3] is True and access_path(fc[2][0]) == 'records')
                if bad is None and hdr and (b.exits((0, 0), avoid_blocks=hdr, avoid_edges=empty_e) - {'Diverge'}):
                    bad = 'batch_put can return without iterating over the records at all'
                ok = bad is None and bool(hdr)
                detail = 'every iteration of batch_put stores its record, and the loop is on every path' if ok else (bad or 'no loop over the records found')
        ctx.ob('%s.ORDER.put_unconditional[%s]' % (pfx, fn), 'RF-ORDER', ok, b.path, '%s:%s' % (b.file, b.line), detail,
               key='RF-ORDER|put_unconditional|%s' % fn)


def clean_only_removes(ctx, pfx):
    prog = ctx.prog
    cl = prog.fn_and_inner(TC_ + 'clean')
    bodies = [cl] + prog.children(cl.path)
    allowed = {'retain', 'remove', 'iter', 'len', 'deref', 'clone', 'key', 'value'}
    bad = []
    n = 0
    for b in bodies:
        for ev in b.events():
            for c in ev['calls']:
                if isinstance(c, tuple) and c[0] == 'call' and c[3] and has_leaf(arg(c, 0), 'self.map'):
                    last = (short(c[2] or c[1]) or '').split('::')[-1]
                    if (c[1] or '').startswith('dashmap') or 'DashMap' in (short(c[2] or c[1]) or ''):
                        n += 1
                        if last not in allowed:
                            bad.append((last, ev['line']))
                if isinstance(c, tuple) and c[0] == 'call' and has_leaf(c, 'self.azks'):
                    bad.append(('touches azks slot', ev['line']))
    ctx.ob('%s.EFFECT.clean' % pfx, 'RF-EFFECT', not bad and n >= 2, cl.path, '%s:%s' % (cl.file, cl.line),
           'cache cleaning only removes entries (%d map operations: retain/remove/iter)' % n if not bad else
           'cache cleaning performs %s' % bad)


def reads_fill_cache_from_db(ctx, pfx):
    """cache puts in read APIs store exactly what the database returned"""
    prog = ctx.prog
    n = 0
    for name, b in sorted(sm_bodies(prog).items()):
        if [1 for cal in DB_WRITES for _ in find_events(b, cal)]:
            continue
        for cal in CACHE_PUTS:
            for ev, c in find_events(b, cal):
                n += 1
                a = arg(c, 1)
                pend = [x for x in calls_in(a) if (x[1] or '').startswith(TX) or call_is(x, 'TimedCache::hit_test')]
                ok = any(has_call(a, r) for r in DB_READS) and not pend
                ctx.ob('%s.BIND.read_put[%s]' % (pfx, name), 'RF-BIND', ok, b.path, '%s:%s' % (b.file, ev['line']),
                       'cached value is exactly the database result' if ok else
                       'read path caches a value that is not purely the database result%s: %s' % (
                           ' (it includes pending transaction-log / cache values: %s)' % short(pend[0][1]) if pend else '', show(a)[:120]),
                       key='RF-BIND|read_put|%s' % name)
    ctx.ob('%s.BIND.read_put.count' % pfx, 'FLOOR', n >= 3, SM, None, '%d cache fills on read paths (get, batch_get, get_user_state)' % n)


# ---------------------------------------------------------------- C15

def units_storage(ctx, pfx, prefixes=('akd::storage::manager::', 'akd::storage::transaction::', 'akd::storage::memory::')):
    prog = ctx.prog
    sites = 0
    found = []
    for p, b in sorted(prog.bodies.items()):
        if not p.startswith(prefixes) or '::tests' in p:
            continue

        def rep(kind, key, where, detail, p=p):
            found.append((p, kind, key, where, detail))
        sites += units.check_body(prog, b, rep)
    for p, kind, key, where, detail in found:
        ctx.ob('%s.UNIT[%s:%s]' % (pfx, p.split('::')[-2] if '{closure' in p else p.split('::')[-1], key), 'RF-UNIT', False, p, where, detail,
               key='RF-UNIT|%s|%s|%s' % (p, kind, key))
    ctx.ob('%s.UNIT.sites' % pfx, 'RF-UNIT', sites >= 15, 'akd::storage', None,
           '%d epoch/version-dimensioned sites inspected in the storage layer, %d mismatches' % (sites, len(found)),
           key='RF-UNIT|%s|sites' % pfx)
    ctx.count('unit_sites', sites)


def read_apis_merge_log(ctx, pfx):
    prog = ctx.prog
    sms = sm_bodies(prog)
    tx_reads = {'get': 'Transaction::get', 'batch_get': 'Transaction::get', 'get_user_state': 'Transaction::get_user_state',
                'get_user_data': 'Transaction::get_users_data', 'get_user_state_versions': 'Transaction::get_users_states'}
    n = 0
    for name, b in sorted(sms.items()):
        rs = [(ev, c) for cal in DB_READS for ev, c in find_events(b, cal)]
        if not rs or name == 'get_direct':
            continue
        n += 1
        oid = '%s.SIB.read_merges_log[%s]' % (pfx, name)
        bodies = [b]
        # one level of workspace helpers (get -> get_from_cache_only)
        for ev in b.events():
            for c in ev['calls']:
                if isinstance(c, tuple) and c[0] == 'call' and (c[1] or '').startswith(SM):
                    h = prog.bodies.get(c[1])
                    if h is not None:
                        bodies.append(prog.fn_and_inner(c[1]))
        want = tx_reads.get(name)
        act = any(find_events(x, 'is_transaction_active') for x in bodies)
        tr = want and any(find_events(x, want) for x in bodies)
        ok = bool(act and tr)
        ctx.ob(oid, 'RF-SIB', ok, b.path, '%s:%s' % (b.file, b.line),
               'consults the transaction log (%s) under is_transaction_active()' % want if ok else
               'reads the database without consulting the pending transaction (%s)' % (want or 'no log reader known for this API'),
               key='RF-SIB|read_merges_log|%s' % b.path)
    ctx.ob('%s.SIB.read_merges_log.count' % pfx, 'FLOOR', n >= 5, SM, None, '%d read APIs (besides get_direct) read the database' % n)
    # keyed reads: log before cache before database
    gc = prog.fn_and_inner(SM + 'get_from_cache_only')
    act = find_events(gc, 'is_transaction_active')
    tg = find_events(gc, 'Transaction::get')
    ht = find_events(gc, 'TimedCache::hit_test')
    ok = bool(act and tg and ht)
    if ok:
        ab, tb, hb = act[0][0]['pos'][0], tg[0][0]['pos'][0], ht[0][0]['pos'][0]
        ok = gc.blk_dominates(ab, hb) and gc.blk_dominates(ab, tb) and hb not in gc.reach_avoiding([tb], avoid_blocks=[]) - gc.reach_avoiding([tb], avoid_blocks=[]) \
            and tb not in gc._reach_from(hb)
    ctx.ob('%s.ORDER.log_before_cache' % pfx, 'RF-ORDER', ok, gc.path, '%s:%s' % (gc.file, gc.line),
           'keyed read: transaction log is consulted before the cache' if ok else 'cache is consulted before (or without) the transaction log')
    g = prog.fn_and_inner(SM + 'get')
    c1 = find_events(g, 'get_from_cache_only')
    d1 = find_events(g, 'Database::get')
    ok = bool(c1 and d1) and g.blk_dominates(c1[0][0]['pos'][0], d1[0][0]['pos'][0])
    ctx.ob('%s.ORDER.get' % pfx, 'RF-ORDER', ok, g.path, '%s:%s' % (g.file, g.line),
           'get(): log/cache lookup dominates the database read' if ok else 'get(): database read is not dominated by the log/cache lookup')
    bg = prog.fn_and_inner(SM + 'batch_get')
    t1, d1 = find_events(bg, 'Transaction::get'), find_events(bg, 'Database::batch_get')
    h1 = find_events(bg, 'TimedCache::hit_test')
    ok = bool(t1 and d1 and h1) and t1[0][0]['pos'][0] not in bg._reach_from(d1[0][0]['pos'][0]) and \
        d1[0][0]['pos'][0] in bg._reach_from(t1[0][0]['pos'][0])
    ctx.ob('%s.ORDER.batch_get' % pfx, 'RF-ORDER', ok, bg.path, '%s:%s' % (bg.file, bg.line),
           'batch_get(): per-key log and cache lookups precede the database read of the remaining keys' if ok else
           'batch_get(): ordering of log lookup and database read changed')


def transaction_lifecycle(ctx, pfx):
    prog = ctx.prog
    # begin: single atomic swap, negated, returned
    bt = prog.one(TX + 'begin_transaction')
    e = result_expr(bt)
    ok = e[0] == 'un' and e[1] == 'Not' and e[2][0] == 'call' and (short(e[2][2] or e[2][1]) or '').endswith('::swap') and \
        access_path(arg(e[2], 0)) == 'self.active' and is_const(arg(e[2], 1), 1)
    ctx.ob('%s.BIND.begin' % pfx, 'RF-BIND', ok, bt.path, '%s:%s' % (bt.file, bt.line),
           'begin = !active.swap(true): one atomic read-modify-write decides who owns the transaction' if ok else
           'begin_transaction is no longer a single atomic swap whose previous value is returned: %s' % show(e)[:160])
    sb = prog.one(SM + 'begin_transaction')
    e = result_expr(sb)
    ok = e[0] == 'call' and call_is(e, 'Transaction::begin_transaction')
    ctx.ob('%s.BIND.begin.manager' % pfx, 'RF-BIND', ok, sb.path, '%s:%s' % (sb.file, sb.line),
           'StorageManager::begin_transaction returns the transaction\'s answer' if ok else 'StorageManager::begin_transaction does not return Transaction::begin_transaction(): %s' % show(e)[:120])
    for fn in ('rollback_transaction', 'commit_transaction'):
        b = prog.one(TX + fn)
        require_guard(ctx, b, '%s.GUARD.%s.active' % (pfx, fn), 'RF-GUARD',
                      lambda fc: fc[0] == 'pred' and fc[1].endswith('::load') and fc[3] is False and access_path(fc[2][0]) == 'self.active',
                      '%s refuses when no transaction is active' % fn)
        cl = [ev for ev, c in find_events(b, 'DashMap::clear') if access_path(arg(c, 0)) == 'self.mods']
        st = [ev for ev, c in find_events(b, '::store') if access_path(arg(c, 0)) == 'self.active' and is_const(arg(c, 1), 0)]
        if not st:
            st = [ev for ev in b.events() for c in ev['calls'] if isinstance(c, tuple) and c[0] == 'call' and
                  (short(c[2] or c[1]) or '').endswith('::store') and access_path(arg(c, 0)) == 'self.active']
        ok = bool(cl and st) and all(b.dominates(cl[0]['pos'], s['pos']) for s in st)
        ctx.ob('%s.ORDER.%s.clear_before_release' % (pfx, fn), 'RF-ORDER', ok, b.path, '%s:%s' % (b.file, b.line),
               'the log is cleared before the active flag is lowered' if ok else
               'the active flag is lowered before (or without) clearing the log: a concurrent begin could see stale pending writes')
        # ... and both happen on EVERY successful path: an early `return Ok` in front of them ("nothing to roll back")
        # leaves the transaction open for good (seeded change C10-r2-b)
        must_do(ctx, '%s.ORDER.%s.releases' % (pfx, fn), 'RF-ORDER', b, [e['pos'][0] for e in st],
                '%s lowers the active flag' % fn, key='RF-ORDER|%s|releases' % fn)
        must_do(ctx, '%s.ORDER.%s.clears' % (pfx, fn), 'RF-ORDER', b, [e['pos'][0] for e in cl],
                '%s clears the pending log' % fn, key='RF-ORDER|%s|clears' % fn)
    ct = prog.one(TX + 'commit_transaction')
    oks = ok_aggregates(ct)
    good = bool(oks)
    detail = ''
    for pos, e in oks:
        base = e
        muts = []
        while base[0] == 'mutby':
            muts.extend(base[1])
            base = base[2]
        chain = [(short(c[2] or c[1]) or '').split('::')[-1] for c in calls_in(base)]
        if not (has_leaf(base, 'self.mods') and set(chain) <= {'iter', 'map', 'collect', 'clone', 'value', 'into_iter'} and 'collect' in chain):
            good = False
            detail = 'returned records are not the whole log: %s' % show(base)[:160]
        mnames = [(short(c[2] or c[1]) or '').split('::')[-1] for c in muts]
        if not (mnames and all(m in ('sort_by_key', 'sort_by', 'sort_by_cached_key', 'deref_mut') for m in mnames)):
            good = False
            detail = 'records are mutated by %s between collection and return' % mnames
        keyed = [c for c in muts if (short(c[2] or c[1]) or '').split('::')[-1].startswith('sort_by')]
        for c in keyed:
            clo = arg(c, 1)
            cb = prog.bodies.get(clo[1]) if clo[0] == 'closure' else None
            if cb is None or not any(term_is(t, 'transaction_priority') for t in cb.calls()):
                good = False
                detail = 'sort key is not DbRecord::transaction_priority'
    ctx.ob('%s.BIND.commit.whole_log_sorted' % pfx, 'RF-BIND', good, ct.path, '%s:%s' % (ct.file, ct.line),
           'commit returns the whole log, only sorted by transaction_priority' if good else detail, key='RF-BIND|commit.whole_log_sorted')


def begin_has_no_side_effect(ctx, pfx):
    """a refused begin must not touch the pending log: Transaction::begin_transaction
    performs nothing but the atomic swap (mutation of `mods` allowed only on the
    edge where the swap returned false, i.e. this caller now owns the transaction)"""
    prog = ctx.prog
    bt = prog.one(TX + 'begin_transaction')
    bad = []
    for ev in bt.events():
        for c in ev['calls']:
            if isinstance(c, tuple) and c[0] == 'call' and c[3] and has_leaf(arg(c, 0), 'self.mods'):
                nm = (short(c[2] or c[1]) or '').split('::')[-1]
                if nm in ('deref', 'len', 'is_empty', 'iter', 'get', 'contains_key'):
                    continue
                own = decisions(bt, lambda fc: fc[0] == 'pred' and fc[1].endswith('::swap'))
                ok = any(d['false'] is not None and edge_dominates(bt, (d['block'], d['false']), ev['pos'][0]) for d in own)
                if not ok:
                    bad.append('%s at line %s' % (nm, ev['line']))
    ctx.ob('%s.EFFECT.begin_pure' % pfx, 'RF-EFFECT', not bad, bt.path, '%s:%s' % (bt.file, bt.line),
           'begin_transaction performs only the atomic swap: a refused begin leaves the pending log untouched' if not bad else
           'begin_transaction mutates the pending log (%s) even when the begin is refused: a second begin wipes the open '
           'transaction\'s writes' % ', '.join(bad), key='RF-EFFECT|begin_pure')


def _map_only(e):
    """HashMap::get(m, k) -> m : classify a looked-up value by the map, not by the key"""
    if not isinstance(e, tuple):
        return e
    if e and e[0] == 'call' and (short(e[2] or e[1]) or '').endswith('HashMap::get') and e[3]:
        return _map_only(e[3][0])
    return tuple(_map_only(x) if isinstance(x, tuple) else x for x in e)


def _pending(x):
    x = _map_only(strip_mut(x))
    return has_leaf(x, 'transaction_value') or any(True for _ in calls_in(x, ('Transaction::get_users_states', 'Transaction::get_user_state')))


def _stored(x):
    x = _map_only(strip_mut(x))
    return (has_leaf(x, 'state_epoch') or has_leaf(x, 'db_value') or
            any(True for _ in calls_in(x, ('Database::get_user_state_versions', 'Database::get_user_state')))) and not _pending(x)


def merge_table(ctx, pfx):
    """RF-GUARD decision table for merging a pending record with the database
    record, per ValueStateRetrievalFlag variant: SpecificVersion/SpecificEpoch:
    pending always wins; LeqEpoch/MaxEpoch: pending wins iff it is at least as
    new (ties -> pending); MinEpoch: pending wins iff it is at most as old."""
    prog = ctx.prog
    sites = []
    for fn in ('compare_db_and_transaction_records', 'get_user_state_versions', 'get_user_state'):
        bs = prog.find(SM + fn)
        if bs:
            b = prog.fn_and_inner(SM + fn)
            ve = variant_edges(b, lambda x: (access_path(x) or '').split('.')[0] == 'flag' or
                               (x[0] == 'field' and has_leaf(x, 'flag') and x[1][0] == 'tuple'))
            for v in ve:
                sites.append((fn, b, v))
    n = 0
    for fn, b, v in sites:
        tg = dict(v['edges'])
        for val, nm in v['names'].items():
            tg.setdefault(nm, v['else'])
        for variant, tgt in sorted(tg.items()):
            hdrs0 = [pos[0] for pos, tt in b.call_sites() if (short(tt.get('res') or tt.get('fn')) or '').endswith('::next')]
            decs = symbolic_decisions(b, tgt, stop_blocks=[v['block']] + hdrs0)
            rel_decs = []
            for d in decs:
                for truth, edge in ((True, d['true']), (False, d['false'])):
                    pass
                c = norm_bool(d['cond'], True)
                if len(c) == 1 and c[0][0] == 'rel' and any(_pending(x) for x in c[0][2:4]) and any(_stored(x) for x in c[0][2:4]):
                    rel_decs.append((d, c[0]))
            oid = '%s.TABLE[%s:%s]' % (pfx, fn, variant)
            where = '%s:%s' % (b.file, v['line'])
            if variant in ('SpecificVersion', 'SpecificEpoch'):
                ok = not rel_decs
                ctx.ob(oid, 'RF-GUARD', ok, b.path, where, 'pending record always replaces the database record' if ok else
                       'an exact-match flag compares epochs before taking the pending record', key='RF-GUARD|TABLE|%s|%s' % (fn, variant))
                n += 1
                continue
            if not rel_decs:
                ctx.ob(oid, 'RF-GUARD', False, b.path, where, 'no comparison of pending and stored record decides the %s arm' % variant,
                       key='RF-GUARD|TABLE|%s|%s' % (fn, variant))
                n += 1
                continue
            good = True
            why = ''
            for d, r in rel_decs:
                # which side takes the pending record?  the side from which a "take" action is reachable
                def takes(t):
                    if t is None:
                        return False
                    ks = b.exits((t, 0))
                    if b.raw['locals'][0]['ty'].startswith('std::option::Option'):
                        return 'Ok' in ks and 'Err' not in ks
                    ins = [ev['pos'][0] for ev, c in find_events(b, 'HashMap::insert')] + \
                          [pos[0] for pos, e in ok_aggregates(b) if 'transaction_value' in show(e)]
                    hdrs = [pos[0] for pos, tt in b.call_sites() if (short(tt.get('res') or tt.get('fn')) or '').endswith('::next')]
                    reach = b.reach_avoiding([t], avoid_blocks=[v['block']] + hdrs)
                    return any(x in reach for x in ins)
                t_true, t_false = takes(d['true']), takes(d['false'])
                if t_true == t_false:
                    good = False
                    why = 'cannot tell which side of %s takes the pending record' % show(d['cond'])[:80]
                    continue
                cond_take = norm_bool(d['cond'], True if t_true else False)[0]
                pend = _pending
                # canonical: ('rel', 'le', a, b) means a <= b
                if variant in ('LeqEpoch', 'MaxEpoch'):
                    want = cond_take[1] == 'le' and not pend(cond_take[2]) and pend(cond_take[3])
                    desc = 'stored <= pending (ties -> pending)'
                else:
                    want = cond_take[1] == 'le' and pend(cond_take[2]) and not pend(cond_take[3])
                    desc = 'pending <= stored (ties -> pending)'
                if not want:
                    good = False
                    why = 'pending record is taken when %s %s %s, expected %s' % (show(cond_take[2])[:50], cond_take[1], show(cond_take[3])[:50], desc)
            n += 1
            ctx.ob(oid, 'RF-GUARD', good, b.path, where,
                   '%s: pending record wins iff %s' % (variant, 'stored <= pending' if variant != 'MinEpoch' else 'pending <= stored') if good else
                   '%s arm: %s' % (variant, why), key='RF-GUARD|TABLE|%s|%s' % (fn, variant))
    ctx.ob('%s.TABLE.count' % pfx, 'FLOOR', n >= 5, SM, None, '%d (function, flag variant) merge decisions checked' % n)


def flags_exhaustive(ctx, pfx):
    prog = ctx.prog
    for fn, path in (('find_appropriate_item', TX + 'find_appropriate_item'),
                     ('compare_db_and_transaction_records', SM + 'compare_db_and_transaction_records')):
        bs = prog.find(path)
        if not bs:
            ctx.ob('%s.EXH[%s]' % (pfx, fn), 'RF-GUARD', True, path, None, 'function not present (merged into its caller)', nontrivial=False)
            continue
        b = bs[0]
        ve = variant_edges(b, lambda x: access_path(x) == 'flag')
        ok = False
        if ve:
            v = ve[0]
            explicit = set(v['edges'])
            allv = set(v['names'].values())
            els = b.blocks[v['else']]
            ok = explicit == allv or (els['t']['k'] == 'unreachable')
        ctx.ob('%s.EXH[%s]' % (pfx, fn), 'RF-GUARD', ok, b.path, '%s:%s' % (b.file, b.line),
               'explicit arm for every ValueStateRetrievalFlag variant' if ok else 'a catch-all arm handles some ValueStateRetrievalFlag variants')


# ---------------------------------------------------------------- unconditional effects

def _field_assign_blocks(b, base_name, field):
    """blocks that assign `<base_name>.<field>` (through a reference or directly)"""
    out = []
    names = b.names()
    for pos, st in b.stmts():
        if st.get('k') != 'assign' or len(st['p']) < 2:
            continue
        flds = [el.get('f') for el in st['p'][1:] if isinstance(el, dict)]
        if flds and flds[-1] == field and names.get(st['p'][0]) == base_name:
            out.append(pos[0])
    return out


def must_do(ctx, oid, rule, b, effect_blocks, desc, bypass_edges=(), per_record_loop=False, key=None):
    """the effect (any of effect_blocks) lies on every path of `b` to a non-failing return; the only permitted
    bypasses are the listed CFG edges.  An early `return Ok(..)` in front of the effect ("nothing to do",
    "unchanged", "too large", "cleaning disabled") turns the function into a conditional no-op."""
    where = '%s:%s' % (b.file, b.line)
    if not effect_blocks:
        ctx.ob(oid, rule, False, b.path, where, '%s: the effect was not found' % desc, key=key or '%s|%s|missing' % (rule, oid))
        return False
    ks = b.exits((0, 0), avoid_blocks=list(effect_blocks), avoid_edges=list(bypass_edges)) - {'Err', 'Diverge'}
    ok = not ks
    ctx.ob(oid, rule, ok, b.path, where, ('%s: on every path to a normal return' % desc) if ok else
           ('%s: a normal return is reachable without it (exit kinds %s) — conditional no-op' % (desc, sorted(ks))),
           key=key or '%s|%s' % (rule, oid))
    return ok


def write_apis_unconditional(ctx, pfx):
    """StorageManager::set / batch_set hand every record either to the transaction log or to the database
    (batch_set: except for an empty batch); Transaction::set / batch_set insert into the log; the manager's
    commit writes the drained log unless it is empty."""
    prog = ctx.prog
    for name in ('set', 'batch_set'):
        b = prog.fn_and_inner(SM + name)
        eff = [ev['pos'][0] for cal in DB_WRITES + ('Transaction::set', 'Transaction::batch_set') for ev, c in find_events(b, cal)]
        by = side_edges(b, lambda fc: fc[0] == 'pred' and fc[1].endswith('is_empty') and fc[3] is True and access_path(fc[2][0]) == 'records') \
            if name == 'batch_set' else []
        must_do(ctx, '%s.ORDER.write_unconditional[%s]' % (pfx, name), 'RF-ORDER', b, eff,
                'StorageManager::%s passes its records to the transaction log or the database' % name, bypass_edges=by,
                key='RF-ORDER|write_unconditional|%s' % name)
    for name in ('set', 'batch_set'):
        b = prog.one('akd::storage::transaction::Transaction::' + name)
        eff = [ev['pos'][0] for ev, c in find_events(b, 'DashMap::insert') if access_path(arg(c, 0)) == 'self.mods']
        if name == 'batch_set' and eff:
            # per record: the loop header is on every path and no iteration completes without the insert
            hdr = [pos[0] for pos, t in b.call_sites() if (short(t.get('res') or t.get('fn')) or '').endswith('::next')]
            empty_e = side_edges(b, lambda fc: fc[0] == 'pred' and fc[1].endswith('is_empty') and fc[3] is True and access_path(fc[2][0]) == 'records')
            ks = b.exits((0, 0), avoid_blocks=hdr, avoid_edges=empty_e) - {'Diverge'} if hdr else {'noloop'}
            ok = bool(hdr) and not ks and all(h not in b.reach_avoiding(b.succ(h), avoid_blocks=eff) or True for h in hdr)
            # an iteration that skips the insert: from the Some-edge back to the header avoiding the insert
            skip = False
            for h in hdr:
                nxt = b.blocks[h]['t']['t']
                bb, sw = nxt, None
                for _ in range(4):
                    if b.blocks[bb]['t']['k'] == 'switch':
                        sw = bb
                        break
                    nx = b.succ(bb)
                    if len(nx) != 1:
                        break
                    bb = nx[0]
                if sw is not None:
                    names = variant_names(b, {'term': b.blocks[sw]['t']})
                    some = [tb for v, tb in b.blocks[sw]['t']['vals'] if names.get(v) == 'Some'] or [tb for v, tb in b.blocks[sw]['t']['vals']]
                    if h in b.reach_avoiding(some, avoid_blocks=eff):
                        skip = True
            ctx.ob('%s.ORDER.log_append[batch_set]' % pfx, 'RF-ORDER', ok and not skip, b.path, '%s:%s' % (b.file, b.line),
                   'Transaction::batch_set inserts every record into the log' if ok and not skip else
                   'Transaction::batch_set can skip a record (or the whole batch)', key='RF-ORDER|log_append|batch_set')
        else:
            must_do(ctx, '%s.ORDER.log_append[%s]' % (pfx, name), 'RF-ORDER', b, eff, 'Transaction::%s inserts the record into the log' % name,
                    key='RF-ORDER|log_append|%s' % name)


def find_item_table(ctx, pfx):
    """Transaction::find_appropriate_item picks, from the pending states of one user (ascending by epoch), the state
    the database would return after commit: SpecificVersion/SpecificEpoch: the matching one; LeqEpoch(e): the LAST
    one with epoch <= e (reverse scan); MaxEpoch: the last; MinEpoch: the first.
    (Seeded change C15-r2-a dropped the `.rev()` of the LeqEpoch arm: the oldest instead of the newest.)"""
    prog = ctx.prog
    b = prog.one(TX + 'find_appropriate_item')
    ve = variant_edges(b, lambda x: access_path(x) == 'flag')
    if not ve:
        ctx.ob(pfx + '.TABLE[find_appropriate_item]', 'RF-GUARD', False, b.path, '%s:%s' % (b.file, b.line), 'no dispatch on the retrieval flag')
        return
    tg = dict(ve[0]['edges'])
    e = result_expr(b)
    alts = e[1] if e[0] == 'phi' else (e,)

    def closure_of(c):
        cl = [a for a in c[3] if a[0] == 'closure']
        if not cl:
            return None, {}
        cb = prog.bodies.get(cl[0][1])
        return (result_expr(cb) if cb else None), dict(cl[0][2])
    want = {
        'SpecificVersion': lambda c, r, cap: call_is(c, 'find') and 'Rev' not in (c[2] or '') and r and r[0] == 'bin' and r[1] == 'Eq' and 'version' in show(r[2]),
        'SpecificEpoch': lambda c, r, cap: call_is(c, 'find') and 'Rev' not in (c[2] or '') and r and r[0] == 'bin' and r[1] == 'Eq' and 'epoch' in show(r[2]),
        'LeqEpoch': lambda c, r, cap: call_is(c, 'find') and 'Rev' in (c[2] or '') and r and r[0] == 'bin' and r[1] == 'Le' and 'epoch' in show(r[2]),
        'MaxEpoch': lambda c, r, cap: call_is(c, 'next_back') or (call_is(c, 'last')),
        'MinEpoch': lambda c, r, cap: call_is(c, 'next') and 'Rev' not in (c[2] or ''),
    }
    desc = {'SpecificVersion': 'the state with that version', 'SpecificEpoch': 'the state with that epoch',
            'LeqEpoch': 'the newest state with epoch <= e (reverse scan)', 'MaxEpoch': 'the last state', 'MinEpoch': 'the first state'}
    for v, pred in want.items():
        tb = tg.get(v, ve[0]['else'])
        mine = [a for a in alts if a[0] == 'call' and edge_dominates(b, (ve[0]['block'], tb), a[4])]
        ok = False
        for c in mine:
            r, cap = closure_of(c)
            payload_ok = v in ('MaxEpoch', 'MinEpoch') or any(('as %s' % v) in show(x) or (x[0] == 'field' and x[1][0] == 'variant' and x[1][2] == v) for x in cap.values())
            ok = ok or (bool(pred(c, r, cap)) and payload_ok)
        ctx.ob('%s.TABLE[find_appropriate_item:%s]' % (pfx, v), 'RF-GUARD', ok, b.path, '%s:%s' % (b.file, b.line),
               '%s: %s' % (v, desc[v]) if ok else '%s arm no longer selects %s: %s' % (v, desc[v], [show(c)[:80] for c in mine]),
               key='RF-GUARD|find_item|%s' % v)


def log_writes_only_when_active(ctx, pfx):
    """the pending log receives records only while a transaction is open: Transaction::set / batch_set are called
    only from StorageManager::set / batch_set, on the `is_transaction_active()` edge.  Records put into the log with
    the flag down are picked up by the NEXT transaction of any clone (seeded change C12-r2-b handed the records of a
    failed commit back to the log after the flag had been lowered)."""
    prog = ctx.prog
    bad, n = [], 0
    for p, b in sorted(prog.bodies.items()):
        if b.crate != 'akd' or '::tests' in p or 'test_utils' in p or p.startswith(TX):
            continue
        for ev in b.events():
            for c in ev['calls']:
                if not (isinstance(c, tuple) and c[0] == 'call' and call_is(c, ('Transaction::set', 'Transaction::batch_set'))):
                    continue
                n += 1
                base = p.split('::{closure')[0]
                if base not in (SM + 'set', SM + 'batch_set'):
                    bad.append('%s writes the transaction log (%s)' % (short(base), b.loc(ev['pos'])))
                    continue
                dec = decisions(b, lambda fc: fc[0] == 'pred' and fc[1].endswith('is_transaction_active') and fc[3] is True)
                if not any(d['true'] is not None and edge_dominates(b, (d['block'], d['true']), ev['pos'][0]) for d in dec):
                    bad.append('%s writes the log without testing is_transaction_active() (%s)' % (short(base), b.loc(ev['pos'])))
    ctx.ob(pfx + '.OWN.log_writes_only_when_active', 'RF-OWN', not bad and n >= 2, SM, None,
           'the transaction log is written only by StorageManager::set/batch_set while a transaction is active (%d sites)' % n if not bad and n >= 2 else
           'the pending log can receive records outside an open transaction: %s' % (bad or 'only %d sites found' % n),
           key='RF-OWN|log_writes_only_when_active')
