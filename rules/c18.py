"""C18 — a node label is bound to (key, label, freshness, version): structure
of the binding only.

Decides: (a) the VRF input hash depends on label, freshness and version, and
the commitment nonce / value on their listed inputs, in both hashing
configurations (RF-FLOW); (b) label derivation, proof generation and
verification call the same `get_hash_from_label_input` with (label,
freshness, version) and obtain the node label through
`Output::to_truncated_bytes` + `NodeLabel::new(_, 256)` (RF-SIB); (c) the
obligations of `verify_label` and of its callers (RF-BIND/RF-GUARD).  Decides
nothing cryptographic."""
from analysis.rulelib import *
from analysis.mir import leaves, calls_in, show
from rules import verify_shared as vs

EXPLANATION = __doc__
FLOOR = 28
CFGS = [('whatsapp_v1', 'akd_core::configuration::whatsapp_v1::<WhatsAppV1Configuration as Configuration>::'),
        ('experimental', 'akd_core::configuration::experimental::<ExperimentalConfiguration as Configuration>::')]
T = 'akd_core::ecvrf::traits::VRFKeyStorage::'


def run(ctx):
    prog = ctx.prog
    for name, pre in CFGS:
        flow_complete(ctx, 'C18.F1[%s]' % name, prog.one(pre + 'get_hash_from_label_input'), ['label', 'freshness', 'version'],
                      'VRF input hash')
        nonce = ['commitment_key', 'label'] + (['version', 'value'] if name == 'whatsapp_v1' else [])
        flow_complete(ctx, 'C18.F2[%s]' % name, prog.one(pre + 'get_commitment_nonce'), nonce, 'commitment nonce')
        fresh = ['commitment_key', 'label', 'value'] + (['version'] if name == 'whatsapp_v1' else [])
        flow_complete(ctx, 'C18.F3[%s]' % name, prog.one(pre + 'compute_fresh_azks_value'), fresh, 'fresh leaf commitment')
        flow_complete(ctx, 'C18.F4[%s]' % name, prog.one(pre + 'hash_leaf_with_value'), ['value', 'epoch', 'nonce'], 'leaf hash from value')
        flow_complete(ctx, 'C18.F5[%s]' % name, prog.one(pre + 'hash_leaf_with_commitment'), ['commitment', 'epoch'], 'leaf hash from commitment')
    dk = prog.fn_and_inner('akd::directory::Directory::derive_commitment_key')
    e = result_expr(dk)
    ok = has_call(e, 'VRFKeyStorage::retrieve') and has_call(e, 'Configuration::hash')
    ctx.ob('C18.F6', 'RF-FLOW', ok, dk.path, '%s:%s' % (dk.file, dk.line),
           'commitment key = TC::hash(vrf.retrieve())' if ok else 'commitment key is no longer derived from the VRF secret: %s' % show(e)[:200])

    # single source of truth for the VRF input encoding
    hl = ('call', 'get_hash_from_label_input', ['label', 'freshness', 'version'])
    for oid, fn, sink, idx in (('C18.S1', 'get_label_with_key_helper', 'VRFExpandedPrivateKey::evaluate', 2),
                               ('C18.S2', 'get_label_proof_with_key', 'VRFPrivateKey::prove', 1)):
        b = prog.one(T + fn)
        e = result_expr(b)
        cs = [c for c in calls_in(e, sink)]
        ok = bool(cs) and spec_match(arg(cs[0], idx), hl)
        ctx.ob(oid, 'RF-SIB', ok, b.path, '%s:%s' % (b.file, b.line),
               '%s signs TC::get_hash_from_label_input(label, freshness, version)' % fn if ok else
               '%s does not feed get_hash_from_label_input(label, freshness, version) to %s: %s' % (fn, sink, show(e)[:200]))
    for oid, fn, src in (('C18.S3', 'get_node_label_with_expanded_key', 'get_label_with_key_helper'),
                         ('C18.S4', 'get_node_label_from_vrf_proof::{closure#0}', None)):
        b = prog.one(T + fn)
        e = result_expr(b)
        cs = [c for c in calls_in(e, 'NodeLabel::new')]
        ok = bool(cs) and is_const(arg(cs[0], 1), 256) and has_call(arg(cs[0], 0), 'to_truncated_bytes') and \
            (src is None or spec_match(arg(next(calls_in(arg(cs[0], 0), 'to_truncated_bytes')), 0),
                                       ('call', src, ['expanded_private_key', 'pk', 'label', 'freshness', 'version'])))
        ctx.ob(oid, 'RF-SIB', ok, b.path, '%s:%s' % (b.file, b.line),
               'node label = NodeLabel::new(truncated(output), 256)' if ok else 'node label derivation differs: %s' % show(e)[:200])
    gl = prog.fn_and_inner(T + 'get_node_label')
    e = result_expr(gl)
    cs = list(calls_in(e, 'get_node_label_with_expanded_key'))
    ok = bool(cs) and all(access_path(arg(cs[0], i)) == n for i, n in ((2, 'label'), (3, 'freshness'), (4, 'version')))
    ctx.ob('C18.S5', 'RF-SIB', ok, gl.path, '%s:%s' % (gl.file, gl.line),
           'get_node_label forwards (label, freshness, version) unchanged' if ok else 'get_node_label does not forward (label, freshness, version): %s' % show(e)[:200])
    gp = prog.fn_and_inner(T + 'get_label_proof')
    e = result_expr(gp)
    cs = list(calls_in(e, 'get_label_proof_with_key'))
    ok = bool(cs) and all(access_path(arg(cs[0], i)) == n for i, n in ((1, 'label'), (2, 'freshness'), (3, 'version')))
    ctx.ob('C18.S6', 'RF-SIB', ok, gp.path, '%s:%s' % (gp.file, gp.line),
           'get_label_proof forwards (label, freshness, version) unchanged' if ok else 'get_label_proof does not forward (label, freshness, version)')
    vs.primitives(ctx, 'C18', which=('label', 'existence', 'nonexistence'))
    encodings_exact(ctx)
    # the batched derivation used by publish pairs every input with its own label, under the storage's own key
    from rules import c14
    c14.cfg_twins(ctx, pfx='C18', need_both=False)


def encodings_exact(ctx):
    """the byte encodings the verifier parses are accepted at exactly their length: a key or proof with bytes
    appended must not be read as its prefix (two different byte strings would verify as the same key / proof —
    seeded change C18-r1-b weakened `len != 32` to `len < 32`), and a small-order public key is refused."""
    prog = ctx.prog
    E = 'akd_core::ecvrf::ecvrf_impl::'
    for ty, n in (('VRFPublicKey', 32), ('Proof', 80)):
        b = prog.one(E + '<%s as TryFrom>::try_from' % ty)
        require_guard(ctx, b, 'C18.K.len_exact[%s]' % ty, 'RF-GUARD',
                      lambda fc, n=n: fc[0] == 'rel' and fc[1] == 'ne' and any(
                          has_call(x, 'len') and has_leaf(x, 'bytes') and is_const(y, n) for x, y in ((fc[2], fc[3]), (fc[3], fc[2]))),
                      'reject %s encodings whose length is not exactly %d bytes' % (ty, n))
    b = prog.one(E + '<VRFPublicKey as TryFrom>::try_from')
    require_guard(ctx, b, 'C18.K.small_order', 'RF-GUARD',
                  lambda fc: fc[0] == 'pred' and fc[1].endswith('is_small_order') and fc[3] is True,
                  'reject a public key of small order')
