"""C19 — proofs survive protobuf encoding; malformed input is rejected cleanly
(structural part).

Decides: (a) encoder/decoder field agreement for each converted type: every
field of the core struct is written by `From<&T>` into a protobuf field from
the same-named input field and read back by `TryFrom` from that protobuf field
into that core field (the encoders use `..Default::default()`, so the compiler
does not enforce this); (b) every scalar accessor read by a decoder is
dominated by the `has_x()` presence guard and every `unwrap()` of a message
field by the `is_none()` guard on the same field; label-length, digest-length,
direction and two-children guards; (c) panic-freedom of decoding inside
workspace code: all potential panic sites (unwrap/expect, panics, slice
indexing, length-sensitive copies) reachable from the decode entry points are
enumerated and each must be discharged by a dominating guard of a known form.
Does not decide round-trip equality of values, nor the generated protobuf code
and the protobuf crate's parser."""
import re
from analysis.rulelib import *
from analysis.mir import leaves, calls_in, show, walk, short, term_is
from analysis import panics

EXPLANATION = __doc__
FLOOR = 60
P = 'akd_core::proto::'
TYPES = ['NodeLabel', 'AzksElement', 'SiblingProof', 'MembershipProof', 'NonMembershipProof', 'LookupProof', 'UpdateProof',
         'HistoryProof', 'SingleAppendOnlyProof', 'AppendOnlyProof']
# core field -> protobuf field where the names differ
RENAME = {('AzksElement', 'value'): 'value'}


def core_fields(prog, t):
    adt = [a for a in prog.adts_by_name.get(t, []) if a['path'].startswith('akd_core::types')]
    return [f['n'] for a in adt for v in a['variants'] for f in v['fields']]


def proto_refs(e):
    """protobuf fields of `input` an expression reads: field accesses input.X and accessor calls X(input)"""
    out = set()
    for s in walk(e):
        ap = access_path(s)
        if ap and ap.startswith('input.'):
            out.add(ap.split('.')[1].split('[')[0])
        if s[0] == 'call' and s[3] and access_path(s[3][0]) == 'input' and '::specs::' in (s[1] or ''):
            nm = s[1].split('::')[-1]
            if not nm.startswith('has_'):
                out.add(nm)
    return out


def wasm_client(ctx):
    """thorough tier only (config X = the examples crate): the wasm client's decode-and-verify wrapper propagates
    every failure — digest parsing, protobuf parsing, message conversion — and contains no unwrap/expect/index"""
    from analysis import extract
    from analysis.mir import Program
    try:
        files, info = extract.facts_for('X', repo=ctx.repo)
    except extract.ExtractError as e:
        ctx.ob('C19.WASM.build', 'ANCHOR', False, 'examples', None, 'examples crate does not build for fact extraction: %s' % str(e)[-300:])
        return
    xp = Program(files)
    ctx.progs['X'] = xp
    ctx.infos['X'] = info
    fs = [b for p, b in xp.bodies.items() if p.endswith('wasm_client::fallible_lookup_verify')]
    if len(fs) != 1:
        ctx.ob('C19.WASM.anchor', 'ANCHOR', False, 'examples::wasm_client', None, 'fallible_lookup_verify not found (%d)' % len(fs))
        return
    b = fs[0]
    for oid, callee, desc in (('C19.WASM.digest', 'try_parse_digest', 'root hash bytes are parsed with try_parse_digest and a wrong size is an error'),
                              ('C19.WASM.parse', 'parse_from_bytes', 'protobuf parsing failure is an error')):
        require_call(ctx, b, oid, 'RF-BIND', callee, None, desc)
    # the conversion `(&proto_proof).try_into()?` is a transparent call in the reconstructed expressions: its `?` shows as a
    # second failing Try::branch on the (already unwrapped) parse result
    conv = [g for g in b.guards() if g['fail'] and g['cond'][0] == 'discr' and
            any(x[0] == 'try' and has_call(x[1], 'parse_from_bytes') for x in walk(g['cond']))]
    okc = bool(conv) and not (b.exits((0, 0), avoid_blocks=[g['block'] for g in conv]) - {'Err', 'Diverge'})
    ctx.ob('C19.WASM.convert', 'RF-BIND', okc, b.path, '%s:%s' % (b.file, conv[0]['line'] if conv else b.line),
           'message-to-proof conversion failure is an error (checked with `?` on every path)' if okc else
           'the conversion of the parsed message into a proof is not checked with `?` on every path', key='RF-BIND|C19.WASM.convert')
    panicky = [(short(t.get('res') or t.get('fn')) or '') for pos, t in b.call_sites()
               if (short(t.get('res') or t.get('fn')) or '').split('::')[-1] in ('unwrap', 'expect', 'index', 'unwrap_unchecked')]
    tail = [c for c in checked_calls(b, 'lookup_verify') if c['how'].startswith('tail')] or checked_calls(b, 'lookup_verify')
    ctx.ob('C19.WASM.no_panic', 'RF-PANIC', not panicky and bool(tail), b.path, '%s:%s' % (b.file, b.line),
           'no unwrap / expect / indexing in the wasm decode wrapper; the verifier\'s Result is returned' if not panicky and tail else
           'wasm decode wrapper can panic or drops the verifier result: %s' % panicky)


def audit_blobs(ctx):
    """blob generation pairs every epoch step with its own data: AuditBlob::new(hashes[i], hashes[i + 1], epochs[i],
    proofs[i]) for every i in 0..hashes.len() - 1 (a sliding pair, as audit_verify consumes it) — seeded change
    C19-r2-b used disjoint chunks, so blobs of a multi-epoch proof carried the wrong hashes"""
    prog = ctx.prog
    b = prog.one('akd::local_auditing::generate_audit_blobs')

    def chk(c):
        def idx(e, coll, off):
            ic = [x for x in calls_in(e, 'index') if access_path(arg(x, 0)) == coll]
            if not ic:
                return None
            i = arg(ic[0], 1)
            if off:
                if not (i[0] == 'bin' and i[1] == 'Add' and is_const(i[3], off)):
                    return None
                i = i[2]
            return i
        i0, i1, i2, i3 = idx(arg(c, 0), 'hashes', 0), idx(arg(c, 1), 'hashes', 1), idx(arg(c, 2), 'proof.epochs', 0), idx(arg(c, 3), 'proof.proofs', 0)
        if None in (i0, i1, i2, i3) or not (i0 == i1 == i2 == i3):
            return 'arguments are not (hashes[i], hashes[i + 1], proof.epochs[i], proof.proofs[i]) for one index i'
        rng = i0[1] if i0[0] == 'elem' else None
        full = bool(rng) and rng[0] == 'agg' and rng[1] == 'Range' and is_const(dict(rng[3])['start'], 0) and \
            spec_match(dict(rng[3])['end'], ('bin', 'Sub', ('call', 'len', ['hashes']), ('const', 1)))
        return True if full else 'the index does not run over 0..hashes.len() - 1'
    require_call(ctx, b, 'C19.BLOB.pairs', 'RF-BIND', 'AuditBlob::new', chk,
                 'one blob per epoch step with that step\'s hashes, epoch and proof', per_iteration=True)
    ps = [(ev, c) for ev, c in find_events(b, 'Vec::push')]
    ok = len(ps) == 1 and has_call(arg(ps[0][1], 1), 'AuditBlob::new')
    ctx.ob('C19.BLOB.collect', 'RF-BIND', ok, b.path, '%s:%s' % (b.file, b.line), 'every blob is pushed to the result' if ok else
           'blobs are not collected one per step')


def run(ctx):
    audit_blobs(ctx)
    if ctx.tier == 'thoroug' and 'X' not in ctx.progs and getattr(ctx, 'repo', None):
        wasm_client(ctx)
    prog = ctx.prog
    for t in TYPES:
        enc = prog.one(P + '<%s as From>::from' % t)
        dec = prog.one(P + '<%s as TryFrom>::try_from' % t)
        cf = core_fields(prog, t)
        e = result_expr(enc)
        encmap = {}
        if e[0] == 'agg':
            for pf, v in e[3]:
                srcs = {l.split('.')[1].split('[')[0] for l in leaves(v) if l.startswith('input.')}
                for s in srcs:
                    encmap.setdefault(s, set()).add(pf)
        decmap = {}
        oks = ok_aggregates(dec)
        for pos, oe in oks:
            if oe[0] == 'agg':
                for f, v in oe[3]:
                    decmap.setdefault(f, set()).update(proto_refs(v))
        for f in cf:
            w = encmap.get(f, set())
            r = decmap.get(f, set())
            if not r:
                # value selected by control flow only (e.g. match on the decoded number): attribute the
                # protobuf fields read by the decoder's non-presence dispatches
                fe = [v for pos, oe in oks if oe[0] == 'agg' for ff, v in oe[3] if ff == f]
                if fe and not [l for l in leaves(fe[0]) if not l.startswith('const:')]:
                    for g in dec.guards():
                        if g['cond'][0] != 'discr' and g.get('mac') not in ('require', 'require_messagefield'):
                            r = r | proto_refs(g['cond'])
            ok = bool(w) and bool(r) and bool(w & r)
            ctx.ob('C19.SIB[%s.%s]' % (t, f), 'RF-SIB', ok, enc.path, '%s:%s' % (enc.file, enc.line),
                   'encoder writes %s.%s to protobuf field %s and the decoder reads it back into %s' % (t, f, sorted(w & r), f) if ok else
                   'field %s.%s: encoder writes protobuf field(s) %s, decoder fills it from %s — %s' % (
                       t, f, sorted(w) or 'NONE (left to ..Default::default())', sorted(r) or 'NOTHING',
                       'the value does not survive a round trip'), key='RF-SIB|C19|%s.%s' % (t, f))
        presence_guards(ctx, t, dec)
    special_guards(ctx)
    panic_table(ctx)


def presence_guards(ctx, t, dec):
    prog = ctx.prog
    # scalar accessors: input.x() must be dominated by `!input.has_x() => Err`
    for pos, term in dec.call_sites():
        fn = term.get('fn') or ''
        if '::specs::' not in fn or not term['args']:
            continue
        nm = fn.split('::')[-1]
        recv = dec.expr_op(term['args'][0], pos)
        if access_path(recv) != 'input' or nm.startswith('has_') or nm in ('special_fields',):
            continue
        if is_repeated(prog, fn):
            continue
        gs = [g for g in dec.guards() if g['fail'] and any(
            fc[0] == 'pred' and fc[1].endswith('::has_' + nm) and fc[3] is False and access_path(fc[2][0]) == 'input'
            for fc in failconds(dec, g))]
        ok = any(edge_dominates(dec, (g['block'], tb), pos[0]) for g in gs for v, tb in g['pass'])
        ctx.ob('C19.REQ[%s.%s]' % (t, nm), 'RF-GUARD', ok, dec.path, dec.loc(pos),
               'scalar field %s is read only after the has_%s() presence guard' % (nm, nm) if ok else
               'decoder reads scalar field `%s` without a dominating `has_%s()` guard: a message without the field decodes to the '
               'default value instead of being rejected' % (nm, nm), key='RF-GUARD|C19.REQ|%s.%s' % (t, nm))


def is_repeated(prog, accessor):
    return False


def unwrap_guarded(body, site):
    """unwrap(X) dominated by a guard `X.is_none() => Err` on the same X (modulo as_ref)"""
    def norm(e):
        while e[0] == 'call' and (short(e[2] or e[1]) or '').split('::')[-1] in ('as_ref', 'as_mut', 'as_deref') and e[3]:
            e = e[3][0]
        return e
    x = norm(site['arg'])
    for g in body.guards():
        if not g['fail']:
            continue
        for fc in failconds(body, g):
            if fc[0] == 'pred' and fc[1].split('::')[-1] == 'is_none' and fc[3] is True and norm(fc[2][0]) == x:
                if any(edge_dominates(body, (g['block'], tb), site['pos'][0]) for v, tb in g['pass']):
                    return 'is_none guard on %s (line %s)' % (show(x)[:60], g['line'])
            if fc[0] == 'pred' and fc[1].split('::')[-1] == 'is_some' and fc[3] is False and norm(fc[2][0]) == x:
                if any(edge_dominates(body, (g['block'], tb), site['pos'][0]) for v, tb in g['pass']):
                    return 'is_some guard on %s (line %s)' % (show(x)[:60], g['line'])
    return None


def exact_len_guards(body):
    """{access path: (N, guard)} for guards `len(X) != N => Err` (exact) and
    {path: (N, guard, 'min')} for `len(X) < N => Err`"""
    out = {}
    for g in body.guards():
        if not g['fail']:
            continue
        for fc in failconds(body, g):
            if fc[0] != 'rel':
                continue
            for a, b_, flip in ((fc[2], fc[3], False), (fc[3], fc[2], True)):
                if a[0] == 'call' and (short(a[2] or a[1]) or '').split('::')[-1] == 'len' and b_[0] == 'const' and isinstance(b_[1], int):
                    ap = access_path(arg(a, 0)) or show(arg(a, 0))
                    if fc[1] == 'ne':
                        out[ap] = (b_[1], g, 'exact')
                    elif fc[1] == 'lt' and not flip:      # len < N => Err
                        out.setdefault(ap, (b_[1], g, 'min'))
                    elif fc[1] == 'lt' and flip:          # N < len => Err  (len <= N)
                        out.setdefault(ap, (b_[1], g, 'max'))
    return out


def arr_len(body, op, depth=0):
    """static length of an array-typed operand: from its local's type, following
    unsizing casts / reborrows back to the array local"""
    p = op.get('m') or op.get('c')
    if not p or depth > 6:
        return None
    ty = body.raw['locals'][p[0]]['ty']
    m = re.search(r'\[[^;\]]+; (\d+)\]', ty)
    if m:
        return int(m.group(1))
    ds = body.defs().get(p[0], [])
    if len(ds) == 1 and ds[0][1] == 'assign':
        r = ds[0][2]['r']
        if r['k'] in ('use', 'cast') and 'o' in r:
            return arr_len(body, r['o'], depth + 1)
        if r['k'] in ('ref', 'rawptr') and len([x for x in r['p'][1:] if x != '*']) == 0:
            return arr_len(body, {'c': r['p'][:1]}, depth + 1)
    return None


def width(body, e, lens, term_arg=None):
    """static width (int) of a slice expression, or ('len', path)"""
    if e[0] == 'call' and (short(e[2] or e[1]) or '').split('::')[-1] in ('index', 'index_mut') and len(e[3]) == 2:
        base, rng = e[3]
        bl = width(body, base, lens)
        if rng[0] == 'agg':
            f = dict(rng[3])
            c = lambda x: x[1] if x and x[0] == 'const' and isinstance(x[1], int) else None
            if rng[1] == 'RangeTo':
                k = c(f.get('end'))
                if k is not None:
                    return k
                en = f.get('end')
                if en and en[0] == 'call' and (short(en[2] or en[1]) or '').endswith('::len'):
                    return ('len', access_path(arg(en, 0)) or show(arg(en, 0)))
            if rng[1] == 'Range':
                a, b_ = c(f.get('start')), c(f.get('end'))
                if a is not None and b_ is not None:
                    return b_ - a
            if rng[1] == 'RangeFrom':
                a = c(f.get('start'))
                if a is not None and isinstance(bl, int):
                    return bl - a
            if rng[1] == 'RangeFull':
                return bl
        return None
    ap = access_path(e)
    if ap and ap in lens and lens[ap][2] == 'exact':
        return lens[ap][0]
    if e[0] == 'mutby':
        return width(body, e[2], lens)
    if ap:
        return ('len', ap)
    return None


def panic_table(ctx):
    prog = ctx.prog
    roots = [p for p in prog.bodies if p.startswith(P) and 'TryFrom>::try_from' in p and '::specs' not in p]
    roots += ['akd_core::hash::try_parse_digest', 'akd_core::ecvrf::ecvrf_impl::<Proof as TryFrom>::try_from',
              'akd_core::ecvrf::ecvrf_impl::<VRFPublicKey as TryFrom>::try_from']
    roots += [p for p in prog.bodies if p.startswith('akd::local_auditing::') and ('AuditBlob::decode' in p or 'AuditBlobName as TryFrom' in p)]
    missing = [r for r in roots if r not in prog.bodies]
    ctx.ob('C19.PANIC.roots', 'FLOOR', len(roots) >= 14 and not missing, P, None, '%d decode entry points' % len(roots))
    seen, parent = panics.reachable_ws(prog, roots)
    n = 0
    for name in sorted(seen):
        if '::specs::' in name:
            continue
        b = prog.bodies[name]
        lens = exact_len_guards(b)
        for s in panics.sites(prog, b):
            n += 1
            why = discharge(ctx, prog, b, s, lens)
            fnshort = name.split('::{closure')[0].split('::')[-1] if 'TryFrom' not in name else name.split('<')[1].split(' as')[0] + '::try_from'
            oid = 'C19.PANIC[%s:%s:%s]' % (fnshort, s['kind'], s['line'])
            key = 'RF-PANIC|%s|%s|%s' % (name.split('::{closure')[0], s['kind'], show(s['arg'])[:80] if isinstance(s['arg'], tuple) else
                                         '/'.join(show(a)[:50] for a in (s['arg'] or [])))
            ctx.ob(oid, 'RF-PANIC', bool(why), b.path, b.loc(s['pos']),
                   '%s discharged: %s' % (s['what'], why) if why else
                   'potential panic on malformed input: %s%s is not dominated by a guard of a known form' % (
                       s['what'], (' on ' + show(s['arg'])[:100]) if isinstance(s['arg'], tuple) else ''), key=key)
    ctx.ob('C19.PANIC.sites', 'FLOOR', n >= 25, P, None, '%d potential panic sites enumerated in %d reachable workspace bodies' % (n, len(seen)))


def const_idx_ok(body, s, lens):
    base, idx = s['arg'][0], s['arg'][1]
    ap = access_path(base) or show(strip_mut(base))
    t = body.blocks[s['pos'][0]]['t']
    alen = arr_len(body, t['args'][0])
    # length knowledge about the base
    known = None
    if alen is not None:
        known = (alen, 'exact', 'array type [_; %d]' % alen)
    else:
        for k, v in lens.items():
            if k == ap or k == show(base) or (access_path(strip_mut(base)) == k):
                if any(edge_dominates(body, (v[1]['block'], tb), s['pos'][0]) for vv, tb in v[1]['pass']):
                    known = (v[0], v[2], 'guard on len(%s) at line %s' % (k, v[1]['line']))
    if known is None and body.kind != 'fn' and body.raw.get('parent') in body.prog.bodies and access_path(base):
        par = body.prog.bodies[body.raw['parent']]
        plens = exact_len_guards(par)
        mk = [pos for pos, st in par.stmts() if st.get('k') == 'assign' and st['r'].get('k') == 'agg' and st['r'].get('path') == body.path]
        v = plens.get(access_path(base))
        if v is None:
            for pos in mk:
                ce = par._expr_rvalue(par.blocks[pos[0]]['s'][pos[1]]['r'], pos, 0)
                for cap, e in ce[2]:
                    if cap == access_path(base):
                        v = plens.get(access_path(e) or show(e))
        if v and mk and all(any(edge_dominates(par, (v[1]['block'], tb), pos[0]) for vv, tb in v[1]['pass']) for pos in mk):
            known = (v[0], v[2], 'guard on len(%s) in the enclosing function at line %s' % (access_path(base), v[1]['line']))
    hi = None
    if idx[0] == 'const' and isinstance(idx[1], int):
        hi = idx[1] + 1
    elif idx[0] == 'agg':
        f = dict(idx[3])
        c = lambda x: x[1] if x and x[0] == 'const' and isinstance(x[1], int) else None
        if idx[1] == 'RangeTo':
            hi = c(f.get('end'))
            en = f.get('end')
            if hi is None and en and en[0] == 'call' and (short(en[2] or en[1]) or '').endswith('::len'):
                # out[..v.len()] : needs len(v) <= len(out)
                vp = access_path(arg(en, 0))
                return ('sym', vp, known)
        elif idx[1] == 'Range':
            hi = c(f.get('end'))
        elif idx[1] == 'RangeFrom':
            hi = c(f.get('start'))
        elif idx[1] == 'RangeFull':
            return 'full range'
    if hi is None or known is None:
        return None
    n, mode, how = known
    if mode in ('exact', 'min') and hi <= n:
        return 'index bound %d <= %d (%s)' % (hi, n, how)
    return None


def discharge(ctx, prog, b, s, lens):
    k = s['kind']
    if k == 'unwrap':
        g = unwrap_guarded(b, s)
        if g:
            return g
        a = s['arg']
        # expect(from_slice(bytes[..32])): constant-width slice of the required length
        if a[0] == 'call' and (short(a[2] or a[1]) or '').endswith('from_slice'):
            w = width(b, arg(a, 0), lens)
            if w == 32:
                return 'from_slice on a constant-width 32-byte slice'
        return None
    if k == 'index':
        r = const_idx_ok(b, s, lens)
        if isinstance(r, tuple) and r[0] == 'sym':
            # out[..v.len()] with out an array of N: discharged by the function's own dominating assert / guard len(v) <= N
            vp, known = r[1], r[2]
            if known:
                for g in b.guards():
                    for fc in failconds(b, g) if g['fail'] else []:
                        pass
                # the assert!(v.len() <= N) in the same body dominates: it is itself a panic site, discharged at the callers
                asserts = [d for d in decisions(b, lambda fc: fc[0] == 'rel' and fc[1] == 'le' and
                                                fc[2][0] == 'call' and access_path(arg(fc[2], 0)) == vp and is_const(fc[3], known[0]))]
                if any(d['true'] is not None and edge_dominates(b, (d['block'], d['true']), s['pos'][0]) for d in asserts):
                    return 'len(%s) <= %d established by the dominating assert in this function' % (vp, known[0])
            return None
        return r
    if k == 'lencall':
        if s['what'].endswith('copy_from_slice') and len(s['arg']) == 2:
            lens2 = {kk: v for kk, v in lens.items()
                     if any(edge_dominates(b, (v[1]['block'], tb), s['pos'][0]) for vv, tb in v[1]['pass'])}
            t = b.blocks[s['pos'][0]]['t']
            wd = width(b, s['arg'][0], lens2)
            if wd is None or isinstance(wd, tuple):
                al = arr_len(b, t['args'][0])
                if al is not None:
                    wd = al
            ws = width(b, s['arg'][1], lens2)
            if wd is not None and wd == ws:
                return 'destination and source have the same width (%s)' % (wd,)
        return None
    if k == 'panic':
        # assert in decode_minimized_label: every caller guards len(arg) <= 32
        base = b.path.split('::{closure')[0]
        callers = []
        okc = True
        for p2, b2 in prog.bodies.items():
            if '::tests' in p2:
                continue
            for pos, t in b2.call_sites():
                if (t.get('res') or t.get('fn')) == base:
                    callers.append(p2)
                    a = b2.expr_op(t['args'][0], pos)
                    gs = [g for g in b2.guards() if g['fail'] and any(
                        fc[0] == 'rel' and fc[1] == 'lt' and is_const(fc[2], 32) and fc[3][0] == 'call' and
                        (short(fc[3][2] or fc[3][1]) or '').endswith('::len') and arg(fc[3], 0) == a for fc in failconds(b2, g))]
                    if not any(edge_dominates(b2, (g['block'], tb), pos[0]) for g in gs for v, tb in g['pass']):
                        okc = False
        if callers and okc and base.endswith('decode_minimized_label'):
            return 'assert!(len <= 32): every caller (%d) rejects len > 32 before the call (checked summary)' % len(callers)
        return None
    if k.startswith('assert:'):
        return None
    return None


def special_guards(ctx):
    prog = ctx.prog
    nl = prog.one(P + '<NodeLabel as TryFrom>::try_from')
    require_guard(ctx, nl, 'C19.G.label_len', 'RF-GUARD',
                  lambda fc: fc[0] == 'rel' and fc[1] == 'lt' and is_const(fc[2], 256) and has_call(fc[3], 'label_len'),
                  'reject label_len > 256')
    require_guard(ctx, nl, 'C19.G.label_val', 'RF-GUARD',
                  lambda fc: fc[0] == 'rel' and fc[1] == 'lt' and is_const(fc[2], 32) and has_call(fc[3], 'label_val'),
                  'reject label value longer than 32 bytes')
    dg = prog.one('akd_core::hash::try_parse_digest')
    require_guard(ctx, dg, 'C19.G.digest_len', 'RF-GUARD',
                  lambda fc: fc[0] == 'rel' and fc[1] == 'ne' and any(is_const(x, 32) for x in fc[2:4]) and
                  any(has_leaf(x, 'value') for x in fc[2:4]), 'reject digests whose length is not 32')
    sp = prog.one(P + '<SiblingProof as TryFrom>::try_from')
    dirs = [g for g in sp.guards() if g['fail'] and any(v == 'else' for v, tb in g['fail']) and
            {v for v, tb in g['pass']} == {0, 1} and has_call(g['cond'], 'direction')]
    ctx.ob('C19.G.direction', 'RF-GUARD', bool(dirs), sp.path, '%s:%s' % (sp.file, dirs[0]['line'] if dirs else sp.line),
           'direction accepted only if 0 or 1, everything else rejected' if dirs else 'no dispatch that rejects directions other than 0 and 1')
    nm = prog.one(P + '<NonMembershipProof as TryFrom>::try_from')
    two = False
    for pos, t in nm.call_sites():
        if (t.get('fn') or '').endswith('TryInto::try_into') and any('; 2]' in g for g in t.get('gen', [])):
            d = t['dest'][0]
            two = True
    chk = [g for g in nm.guards() if g['fail'] and g.get('dk') == 'QuestionMark' and has_leaf(g['cond'], 'input.longest_prefix_children')]
    ctx.ob('C19.G.two_children', 'RF-GUARD', two and bool(chk), nm.path, '%s:%s' % (nm.file, nm.line),
           'longest_prefix_children converted to [_; 2] with the error propagated' if two and chk else
           'the number of longest_prefix_children is not checked to be exactly two')
