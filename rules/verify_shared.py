"""Obligations of the verifier primitives in akd_core/src/verify/base.rs,
shared by C06, C07, C18, C20 (each property evaluates them under its own id)."""
from analysis.rulelib import *
from analysis.mir import leaves, calls_in, show

B = 'akd_core::verify::base::'
FRESH = ('variant', 'VersionFreshness', 'Fresh')
STALE = ('variant', 'VersionFreshness', 'Stale')


def hash_vs_membership(ctx, body, oid, hashfn, hargs, desc):
    def p(fc):
        if fc[0] != 'rel' or fc[1] != 'ne':
            return False
        for x, y in ((fc[2], fc[3]), (fc[3], fc[2])):
            cs = [c for c in calls_in(x, hashfn)]
            if cs and has_leaf(y, 'membership_proof.hash_val') and \
                    all(spec_match(arg(cs[0], i), s) for i, s in enumerate(hargs)):
                return True
        return False
    return require_guard(ctx, body, oid, 'RF-GUARD', p, desc)


def primitives(ctx, pfx, which=('label', 'existence', 'with_val', 'with_commitment', 'nonexistence')):
    prog = ctx.prog
    if 'label' in which:
        verify_label(ctx, pfx)
    if 'existence' in which:
        b = prog.one(B + 'verify_existence')
        require_call(ctx, b, pfx + '.VE.label', 'RF-BIND', 'verify_label',
                     bind(['vrf_public_key', 'akd_label', 'freshness', 'version', 'vrf_proof', 'membership_proof.label']),
                     'verify_existence: VRF label check bound to the tree proof\'s own label')
        require_call(ctx, b, pfx + '.VE.member', 'RF-BIND', 'verify_membership',
                     bind(['root_hash', 'membership_proof']), 'verify_existence: membership verified against root_hash')
    if 'with_val' in which:
        b = prog.one(B + 'verify_existence_with_val')
        hash_vs_membership(ctx, b, pfx + '.VV.hash', 'hash_leaf_with_value', ['akd_value', 'epoch', 'commitment_nonce'],
                           'reject hash_leaf_with_value(value, epoch, nonce) != membership_proof.hash_val')
        require_call(ctx, b, pfx + '.VV.exist', 'RF-BIND', 'verify_existence',
                     bind(['vrf_public_key', 'root_hash', 'akd_label', 'freshness', 'version', 'vrf_proof', 'membership_proof']),
                     'verify_existence_with_val: existence check with the same freshness/version/proofs')
    if 'with_commitment' in which:
        b = prog.one(B + 'verify_existence_with_commitment')
        hash_vs_membership(ctx, b, pfx + '.VC.hash', 'hash_leaf_with_commitment', ['commitment', 'epoch'],
                           'reject hash_leaf_with_commitment(commitment, epoch) != membership_proof.hash_val')
        require_call(ctx, b, pfx + '.VC.exist', 'RF-BIND', 'verify_existence',
                     bind(['vrf_public_key', 'root_hash', 'akd_label', 'freshness', 'version', 'vrf_proof', 'membership_proof']),
                     'verify_existence_with_commitment: existence check with the same freshness/version/proofs')
    if 'nonexistence' in which:
        b = prog.one(B + 'verify_nonexistence')
        require_call(ctx, b, pfx + '.VN.label', 'RF-BIND', 'verify_label',
                     bind(['vrf_public_key', 'akd_label', 'freshness', 'version', 'vrf_proof', 'nonmembership_proof.label']),
                     'verify_nonexistence: VRF label check bound to the non-membership proof\'s own label')
        require_call(ctx, b, pfx + '.VN.nonmember', 'RF-BIND', 'verify_nonmembership',
                     bind(['root_hash', 'nonmembership_proof']), 'verify_nonexistence: non-membership verified against root_hash')


def verify_label(ctx, pfx):
    prog = ctx.prog
    b = prog.one(B + 'verify_label')
    require_call(ctx, b, pfx + '.VL.pk', 'RF-BIND', '<VRFPublicKey as TryFrom>::try_from', bind(['vrf_public_key']),
                 'verify_label: public key parsed, error propagated')
    require_call(ctx, b, pfx + '.VL.proof', 'RF-BIND', '<Proof as TryFrom>::try_from', bind(['vrf_proof']),
                 'verify_label: VRF proof parsed, error propagated')
    hl = ('call', 'get_hash_from_label_input', ['akd_label', 'freshness', 'version'])
    pr = ('try', ('call', '<Proof as TryFrom>::try_from', ['vrf_proof']))
    require_call(ctx, b, pfx + '.VL.verify', 'RF-BIND', 'VRFPublicKey::verify',
                 bind([('try', ('call', '<VRFPublicKey as TryFrom>::try_from', ['vrf_public_key'])), pr, hl]),
                 'verify_label: vrf_pk.verify(proof, H(label, freshness, version)) propagated')

    def p(fc):
        if fc[0] != 'rel' or fc[1] != 'ne':
            return False
        for x, y in ((fc[2], fc[3]), (fc[3], fc[2])):
            if access_path(y) != 'node_label':
                continue
            for c in calls_in(x, 'NodeLabel::new'):
                a0, a1 = arg(c, 0), arg(c, 1)
                if is_const(a1, 256) and has_call(a0, 'to_truncated_bytes') and has_call(a0, '<Proof as TryFrom>::try_from') \
                        and has_leaf(a0, 'vrf_proof'):
                    return True
        return False
    require_guard(ctx, b, pfx + '.VL.cmp', 'RF-GUARD', p,
                  'reject NodeLabel::new(truncated(output(proof)), 256) != node_label')
