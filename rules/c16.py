"""C16 — the object cache never changes what a read returns (structural part).

Decides: cache fills of written records happen only after the database write
succeeded (RF-ORDER); every database-writing API of StorageManager puts the
same records into the cache and nothing else writes the database (RF-SIB /
RF-EFFECT); read paths cache exactly what the database returned and consult
the transaction log first; flush clears every record-holding field; cache and
manager state is private; cleaning only removes.  Does not decide
timing-dependent behaviour or concurrent tasks."""
from rules import storage_shared as ss
EXPLANATION = __doc__
FLOOR = 25


def run(ctx):
    ss.cache_after_db(ctx, 'C16')
    ss.write_apis_fill_cache(ctx, 'C16')
    ss.reads_fill_cache_from_db(ctx, 'C16')
    ss.flush_complete(ctx, 'C16')
    ss.private_state(ctx, 'C16')
    ss.clean_only_removes(ctx, 'C16')
    ss.put_unconditional(ctx, 'C16')
    ss.read_apis_merge_log(ctx, 'C16')
    ss.write_apis_unconditional(ctx, 'C16')
