"""C14 — results do not depend on parallelism, caching, preloading, batching or
restarts (structural part).

Decides: non-interference — parallelism configuration values flow only into
spawn decisions, recursion parameters and preload plumbing, never into node
constructors, hashing, storage-write arguments or proofs; cache tuning values
never flow into cached data; every fork is joined before its result is used;
preloading reaches no storage write; both cfg bodies of
VRFKeyStorage::get_node_labels (parallel / sequential) compute
get_node_label_with_expanded_key(key, pk, label, freshness, version) per
element and pair it with that element; the element set is normalised by
AzksElementSet::from before insertion; Directory holds no hidden mutable state
and the read-only wrapper forwards unchanged and exposes no publish.  Does not
decide equality of results across the configuration matrix (needs execution)."""
from analysis.rulelib import *
from analysis.mir import leaves, calls_in, show, walk, short, term_is, PLUMBING, TRANSPARENT_CALLS
from rules import dir_shared as ds, c13

EXPLANATION = __doc__
FLOOR = 20
CONFIGS = {'quick': ['D', 'W'], 'thorough': ['D', 'W', 'A']}
TAINT = ('parallel_levels', 'child_parallel_levels', 'parallelism_config', 'self.parallelism_config')
ALLOWED_CALLEES = ('recursive_batch_insert_nodes', 'recursive_preload_nodes', 'recursive_preload_audit_nodes', 'preload_nodes', 'preload_audit_nodes',
                   'preload_lookup_nodes', 'get_append_only_proof_helper', 'get_append_only_proof', 'batch_insert_nodes', 'get_parallel_levels',
                   'and_then', 'is_some', 'is_none', 'map', 'unwrap_or', 'clone', 'tic_toc', 'instrument', 'fmt', 'new_debug', 'new_display',
                   'default', 'disabled', 'available_parallelism', 'into', 'from', 'call_once', 'call_mut', 'call', 'Directory::new', 'new',
                   'greedy_preload_lookup_nodes', 'log2', 'ilog2', 'min', 'max', 'get', 'try_into', 'unwrap_or_default', 'leading_zeros')
# callees whose RESULT does not carry the parallelism value (recursion / preload plumbing, predicates);
# the other allowed callees (and_then, map, unwrap_or, clone, get_parallel_levels, ...) pass it through
CLEAN_RESULT = ('recursive_batch_insert_nodes', 'recursive_preload_nodes', 'recursive_preload_audit_nodes', 'preload_nodes', 'preload_audit_nodes',
                'preload_lookup_nodes', 'get_append_only_proof_helper', 'get_append_only_proof', 'batch_insert_nodes', 'is_some', 'is_none',
                'tic_toc', 'fmt', 'new_debug', 'new_display', 'greedy_preload_lookup_nodes', 'Directory::new', 'new')
ALLOWED_ADTS = ('Directory', 'AzksParallelismConfig', 'AzksParallelismOption', 'Option', 'ReadOnlyDirectory')
# Ok(Directory{..}) / Ok(ReadOnlyDirectory(..)) in the constructors
ALLOWED_WRAP = {('Result', 'Directory::new'), ('Result', 'ReadOnlyDirectory::new')}


def tainted(e, depth=0):
    """expression carries a parallelism value *explicitly*: results of the allowed
    plumbing / recursion calls are clean (each of those bodies is checked by this
    same rule), everything else propagates from its operands"""
    if not isinstance(e, tuple) or depth > 60:
        return False
    ap = access_path(e)
    if ap is not None:
        return any(ap == t or ap.startswith(t + '.') for t in TAINT)
    if e[0] == 'call':
        nm = (short(e[2] or e[1]) or '?')
        last = nm.split('::')[-1]
        if last in CLEAN_RESULT or nm.endswith('spawn'):
            return False
        return any(tainted(a, depth + 1) for a in e[3])
    if e[0] == 'mutby':
        return tainted(e[2], depth + 1) or any(tainted(c, depth + 1) for c in e[1])
    if e[0] == 'closure':
        return False
    for x in e[1:]:
        if isinstance(x, tuple):
            if x and isinstance(x[0], str):
                if tainted(x, depth + 1):
                    return True
            else:
                for y in x:
                    if isinstance(y, tuple):
                        if y and isinstance(y[0], str) and tainted(y, depth + 1):
                            return True
                        elif y and not isinstance(y[0], str):
                            for z in y:
                                if isinstance(z, tuple) and tainted(z, depth + 1):
                                    return True
    return False


def run(ctx):
    for cfg in sorted(ctx.progs):
        noninterference(ctx, cfg)
    cache_tuning(ctx)
    levels_arithmetic(ctx)
    from rules import storage_shared as ss
    ss.put_unconditional(ctx, 'C14')
    ss.cache_after_db(ctx, 'C14')   # the cache never holds what the database does not (also inside a transaction)
    ds.join_rules(ctx, 'C14', want_writer_rule=True)
    preload_readonly(ctx)
    cfg_twins(ctx)
    normalised(ctx)
    hidden_state(ctx)
    c13.readonly_wrapper(ctx, 'C14')


def noninterference(ctx, cfg):
    prog = ctx.progs[cfg]
    bad = []
    n = 0
    for p, b in ds.nontest_bodies(prog, ('akd',)):
        if not p.startswith(('akd::append_only_zks::', 'akd::directory::', 'akd::tree_node::', 'akd::auditor::')):
            continue
        if '<AzksParallelism' in p or 'AzksParallelismConfig::' in p or 'AzksParallelismOption::' in p:
            continue
        for pos, s in b.stmts():
            k = s.get('k')
            if k == 'call':
                args = [b.expr_op(a, pos) for a in s['args']]
                ta = [i for i, a in enumerate(args) if tainted(a)]
                if not ta:
                    continue
                n += 1
                nm = (short(s.get('res') or s.get('fn')) or '?')
                last = nm.split('::')[-1]
                if s.get('fn') in PLUMBING or s.get('fn') in TRANSPARENT_CALLS or last in ('poll', 'branch', 'from_residual', 'drop'):
                    continue
                full = (s.get('res') or s.get('fn') or '')
                if 'AzksParallelismOption::' in full or 'AzksParallelismConfig::' in full:
                    continue   # the configuration type's own methods (their arithmetic is judged by C14.PANIC.levels_arithmetic)
                if last in ALLOWED_CALLEES or nm.endswith('spawn') or (s.get('fn') or '').startswith(('core::fmt', 'alloc::fmt', 'log::', 'core::ops::function')):
                    continue
                bad.append('%s receives a parallelism value (arg %s) at %s' % (nm, ta, b.loc(pos)))
            elif k == 'assign' and s['r']['k'] == 'agg' and s['r'].get('ak') == 'adt':
                ops = [b.expr_op(o, pos) for o in s['r']['ops']]
                if any(tainted(o) for o in ops):
                    n += 1
                    if s['r']['adt'] not in ALLOWED_ADTS and (s['r']['adt'], short(p.split('::{closure')[0])) not in ALLOWED_WRAP:
                        bad.append('%s literal is built from a parallelism value at %s' % (s['r']['adt'], b.loc(pos)))
    ctx.ob('C14.FLOW.parallelism[%s]' % cfg, 'RF-FLOW', not bad and n >= 10, 'akd::append_only_zks', None,
           'config %s: %d uses of parallelism values, all in spawn decisions / recursion plumbing / preload' % (cfg, n) if not bad else
           'config %s: parallelism configuration flows into computation: %s' % (cfg, bad[:4]), key='RF-FLOW|parallelism|%s' % cfg)


def cache_tuning(ctx):
    prog = ctx.prog
    TCP = 'akd::storage::cache::high_parallelism::TimedCache::'
    tune = ('self.item_lifetime', 'self.memory_limit_bytes', 'self.clean_frequency', 'o_lifetime', 'o_memory_limit_bytes', 'o_clean_frequency')
    bad = []
    n = 0
    for p, b in ds.nontest_bodies(prog, ('akd',)):
        if not p.startswith('akd::storage::cache::'):
            continue
        for pos, s in b.stmts():
            if s.get('k') == 'assign' and s['r']['k'] == 'agg' and s['r'].get('adt') == 'CachedItem':
                f = dict(zip(s['r']['fields'], [b.expr_op(o, pos) for o in s['r']['ops']]))
                n += 1
                d = f.get('data', ('unk',))
                if any(l.startswith(t) for l in leaves(d) for t in tune):
                    bad.append('cached data depends on a tuning value at %s' % b.loc(pos))
                if not any(l.startswith('self.item_lifetime') for l in leaves(f.get('expiration', ('unk',)))):
                    bad.append('expiration does not derive from item_lifetime at %s' % b.loc(pos))
    ctx.ob('C14.FLOW.cache_tuning', 'RF-FLOW', not bad and n >= 2, 'akd::storage::cache', None,
           'cache tuning values reach only expiration / cleaning bookkeeping (%d cached-item constructions)' % n if not bad else '; '.join(bad))


def preload_readonly(ctx):
    prog = ctx.prog
    for fn in ('preload_nodes', 'preload_lookup_nodes', 'preload_audit_nodes', 'recursive_preload_nodes', 'recursive_preload_audit_nodes',
               'greedy_preload_lookup_nodes', 'build_lookup_maximal_node_set'):
        bs = prog.find(ds.AZ + fn)
        if not bs:
            ctx.ob('C14.EFFECT.preload[%s]' % fn, 'RF-EFFECT', True, ds.AZ + fn, None, 'not compiled in this configuration', nontrivial=False)
            continue
        b = prog.fn_and_inner(ds.AZ + fn)
        hit, parent = ds.can_write(prog, b.path)
        ctx.ob('C14.EFFECT.preload[%s]' % fn, 'RF-EFFECT', not hit, b.path, '%s:%s' % (b.file, b.line),
               'preloading reaches only reads and cache fills' if not hit else
               'preloading can write storage: %s' % ' -> '.join(short(x) for x in prog.path_to(parent, hit[0])), key='RF-EFFECT|preload|%s' % fn)


def cfg_twins(ctx, pfx='C14', need_both=True):
    T = 'akd_core::ecvrf::traits::VRFKeyStorage::get_node_labels'
    shapes = {}
    for cfg, prog in sorted(ctx.progs.items()):
        if not prog.find(T):
            continue
        b = prog.fn_and_inner(T)
        feats = prog.features.get('akd_core', [])
        par = 'parallel_vrf' in feats
        calls = []
        bodies = [b] + prog.children(b.path)
        for x in bodies:
            for ev in x.events():
                for c in ev['calls']:
                    if isinstance(c, tuple) and c[0] == 'call' and call_is(c, 'get_node_label_with_expanded_key'):
                        calls.append((x, c))
        ok = len(calls) == 1
        detail = '%d calls to get_node_label_with_expanded_key' % len(calls)
        if ok:
            x, c = calls[0]
            a = [arg(c, i) for i in range(5)]
            okk = ('expanded_key' in show(a[0]) or has_call(a[0], 'get_vrf_private_key')) and \
                ('pk' in show(a[1]) or has_call(a[1], 'get_vrf_private_key'))
            elems = [split_fields(y) for y in a[2:5]]
            # label / freshness / version are components 0,1,2 of the same iterated element
            comp = [e[1].split('.')[-1] if e[1] else '' for e in elems]
            roots = {(e[0], e[1].rsplit('.', 1)[0] if '.' in e[1] else '') for e in elems}
            okt = comp == ['0', '1', '2'] or all(n in show(y) for n, y in zip(('label', 'freshness', 'version'), a[2:5]))
            # the result is paired with (label, freshness, version, value) of that same element
            pushes = [arg(m, 1) for bb in bodies for ev in bb.events() for m in ev['calls'] if isinstance(m, tuple) and m[0] == 'call' and call_is(m, 'Vec::push')]
            okp = any(p[0] == 'tuple' and len(p[1]) == 2 and p[1][0][0] == 'tuple' and len(p[1][0][1]) == 4 for p in pushes)
            # the public key handed to the evaluation is derived, in this very call, from the storage's own private key
            # (a value cached across calls or storages — seeded change C18-r2-b used a process-wide OnceLock — makes the
            # batch path's labels differ from what get_node_label / get_label_proof produce under the real key)
            # (name-independent: a VRFPublicKey::from(&key) conversion happens in this call, and nothing in the function
            # or its tasks goes through a once-initialised cell)
            allc = [short(t.get('res') or t.get('fn')) or '' for bb in bodies for pos, t in bb.call_sites()]
            pkdefs = [d for d in allc if d.endswith('::from') and 'VRFPublicKey' in d]
            cached = [d for d in allc if any(w in d for w in ('OnceLock', 'OnceCell', 'LazyLock', 'Lazy::', 'get_or_init', 'thread_local'))]
            okpk = bool(pkdefs) and not cached
            pkdefs = pkdefs + cached
            ok = okk and okt and okp and okpk
            detail = 'node label = get_node_label_with_expanded_key(key, pk, label, freshness, version) of each element, pushed as ((label, freshness, version, value), node_label)' \
                if ok else 'key=%s element-components=%s paired=%s pk-derived-from-own-key=%s %s' % (okk, comp, okp, okpk, pkdefs)
            shapes[cfg] = (par, show(strip_mut(c))[:60])
        ctx.ob('%s.SIB.get_node_labels[%s:%s]' % (pfx, cfg, 'parallel' if par else 'sequential'), 'RF-SIB', ok, b.path, '%s:%s' % (b.file, b.line),
               detail, key='RF-SIB|get_node_labels|%s' % ('parallel' if par else 'sequential'))
    kinds = {v[0] for v in shapes.values()}
    if not need_both:
        return
    ctx.ob('C14.SIB.get_node_labels.both', 'FLOOR', kinds == {True, False}, T, None,
           'both cfg bodies analysed (parallel_vrf on and off)' if kinds == {True, False} else 'only %s body of get_node_labels was compiled' % kinds,
           key='FLOOR|get_node_labels.both')


def normalised(ctx):
    prog = ctx.prog
    b = prog.fn_and_inner(ds.AZ + 'batch_insert_nodes')
    rec = find_events(b, 'Azks::recursive_batch_insert_nodes')
    pre = find_events(b, 'Azks::preload_nodes')
    # `nodes` reaching the insertion is AzksElementSet::from(nodes)
    conv = [t for pos, t in b.call_sites() if term_is(t, '<AzksElementSet as From>::from')]
    ok = bool(rec and conv)
    if ok:
        # the set argument local of the recursive call is defined by the From call
        t = b.blocks[rec[0][1][4]]['t'] if isinstance(rec[0][1][4], int) else None
        ok = any('AzksElementSet' in (b.raw['locals'][(a.get('m') or a.get('c') or [0])[0]]['ty']) for a in (t['args'] if t else []))
    ctx.ob('C14.SIB.normalised_set', 'RF-SIB', ok, b.path, '%s:%s' % (b.file, b.line),
           'the inserted leaves go through AzksElementSet::from (order-normalising) before insertion' if ok else
           'batch_insert_nodes does not normalise the element set with AzksElementSet::from')
    fr = prog.find('akd::append_only_zks::<AzksElementSet as From>::from')
    ok2 = bool(fr) and any(term_is(t, ('sort_unstable', 'sort', 'sort_by', 'sort_unstable_by', 'sort_by_key')) for t in fr[0].calls())
    ctx.ob('C14.SIB.set_sorted', 'RF-SIB', ok2, fr[0].path if fr else 'AzksElementSet::from', None,
           'AzksElementSet::from sorts the elements' if ok2 else 'AzksElementSet::from no longer sorts')
    pb = prog.fn_and_inner(ds.D + 'publish')
    ok3 = any(x[0] == 'call' and call_is(x, 'Iterator::collect') for ev, c in find_events(pb, 'get_node_labels') for x in [c]) or \
        any('HashMap' in (t.get('rty') or '') for pos, t in pb.call_sites() if term_is(t, 'Iterator::collect'))
    ctx.ob('C14.SIB.vrf_map', 'RF-SIB', ok3, pb.path, '%s:%s' % (pb.file, pb.line),
           'VRF results are consumed through a map keyed by element (order-insensitive)' if ok3 else 'publish consumes the VRF results positionally')


def hidden_state(ctx):
    prog = ctx.prog
    adt = [a for a in prog.adts_by_name.get('Directory', []) if a['path'].startswith('akd::directory')]
    bad = []
    for v in adt[0]['variants']:
        for f in v['fields']:
            ty = f['ty']
            inter = any(x in ty for x in ('Mutex', 'RwLock', 'Cell', 'Atomic', 'DashMap', 'OnceCell', 'OnceLock'))
            unit = ty.replace(' ', '') in ('std::sync::Arc<tokio::sync::RwLock<()>>', 'std::sync::Arc<tokio::sync::Mutex<()>>')
            if inter and not unit:
                bad.append('%s: %s' % (f['n'], ty))
    names = [f['n'] for v in adt[0]['variants'] for f in v['fields']]
    ctx.ob('C14.OWN.no_hidden_state', 'RF-OWN', not bad, adt[0]['path'], '%s:%s' % (adt[0]['file'], adt[0]['line']),
           'Directory fields %s: only unit-valued locks besides storage / vrf / config' % names if not bad else
           'Directory holds mutable state outside storage: %s' % bad)
    # a clone is the same directory: every field is copied from self (storage, key material, configuration and both
    # locks) — a freshly constructed field makes results, or the exclusion between clones, differ (C12-r1-b, C13-r1-a)
    cl = prog.find('<Directory as Clone>::clone')
    okc, det = False, 'no Clone impl for Directory found'
    if cl:
        e = result_expr(cl[0])
        if e[0] == 'agg':
            fresh = [f for f, v in e[3] if access_path(v) != 'self.' + f and not (v[0] == 'agg' and v[1] == 'PhantomData')]
            okc, det = not fresh, ('clone() copies every field from self' if not fresh else
                                   'clone() builds fresh value(s) for %s instead of sharing self\'s' % fresh)
        else:
            det = 'clone() does not build a Directory literal'
    ctx.ob('C14.OWN.clone_shares_all', 'RF-SIB', okc, cl[0].path if cl else 'akd::directory::Directory', '%s:%s' % (cl[0].file, cl[0].line) if cl else None,
           det, key='RF-SIB|clone_shares_all')
    ro = [i for i in prog.impls if i.get('self') == 'ReadOnlyDirectory' and not i.get('trait')]
    meths = [it['name'] for i in ro for it in i['items'] if it['fn']]
    bad = [m for m in meths if m in ('publish', 'tombstone', 'publish_malicious_update')]
    wr = []
    for m in meths:
        b = prog.fn_and_inner('akd::directory::ReadOnlyDirectory::' + m)
        hit, parent = ds.can_write(prog, b.path)
        if hit and m != 'new':
            wr.append(m)
    ctx.ob('C14.EFFECT.readonly_api', 'RF-EFFECT', not bad and not wr and len(meths) >= 7, 'akd::directory::ReadOnlyDirectory', None,
           'ReadOnlyDirectory exposes %s; none reaches a storage write' % meths if not bad and not wr else
           'ReadOnlyDirectory can change the directory through %s' % (bad + wr))


def levels_arithmetic(ctx):
    """a panic for one parallelism setting is a result that depends on the setting: every subtraction on a `u8`
    (the type of the parallel-levels plumbing, the only u8 arithmetic in the tree code) must sit on the side of a
    comparison of the same value with a constant that makes it non-negative (`if x <= 1 { None } else { Some(x - 1) }`).
    (Seeded change C14-r1-a computed `levels - 1` unguarded: Static(0) underflows.)"""
    prog = ctx.prog
    n, bad = 0, []
    for p, b in ds.nontest_bodies(prog, ('akd',)):
        if not p.startswith('akd::append_only_zks::'):
            continue
        locs = b.raw['locals']
        for pos, st in b.stmts():
            if st.get('k') != 'assign' or st['r']['k'] != 'bin' or not st['r']['op'].startswith('Sub'):
                continue
            a = st['r']['a']
            q = a.get('m') or a.get('c')
            if not q or len(q) != 1 or locs[q[0]]['ty'] != 'u8':
                continue
            n += 1
            e = b._expr_rvalue(st['r'], pos, 0)
            x, c = e[2], e[3]
            if c[0] != 'const' or not isinstance(c[1], int):
                bad.append('%s: u8 subtraction by a non-constant' % b.loc(pos))
                continue
            safe = False
            for sb, t in b.switches():
                cpos = (sb, len(b.blocks[sb]['s']))
                cond = b.expr_op(t['d'], cpos)
                if cond[0] == 'discr':
                    continue
                zero = [tb for v, tb in t['vals'] if v == 0]
                for truth, tgt in ((True, t['else']), (False, zero[0] if zero else None)):
                    if tgt is None or not edge_dominates(b, (sb, tgt), pos[0]):
                        continue
                    for fc in norm_bool(cond, truth):
                        # known on this edge: fc holds.  ('rel','lt',a,b): a < b ; ('rel','le',a,b): a <= b
                        if fc[0] == 'rel' and fc[1] in ('lt', 'le') and fc[3] == x and fc[2][0] == 'const' and isinstance(fc[2][1], int):
                            k = fc[2][1] + (1 if fc[1] == 'lt' else 0)     # x >= k
                            safe = safe or k >= c[1]
            if not safe:
                bad.append('%s: `%s` is not on the safe side of a comparison of that value with a constant' % (b.loc(pos), show(e)[:40]))
    ctx.ob('C14.PANIC.levels_arithmetic', 'RF-PANIC', not bad and n >= 3, 'akd::append_only_zks', bad[0].split(': ')[0] if bad else None,
           '%d subtractions on parallel-levels values, each guarded against underflow' % n if not bad and n >= 3 else
           'parallel-levels arithmetic can underflow for some configuration (panic = result depends on the setting): %s' % (bad or 'only %d sites found' % n),
           key='RF-PANIC|levels_arithmetic')
