"""C20 — tombstoning old values never changes what the directory has committed
to (structural part).

Decides: tombstone_value_states writes only ValueState records, each a copy of
the stored state with the same epoch/label/username/version and only the value
replaced by TOMBSTONE, exactly for states with epoch <= cut-off and a
non-tombstone value; nothing reachable from root-hash / proof generation /
insertion reads value states (so commitments cannot depend on them); the
history verifier accepts a missing value only under AllowMissingValues and
value == TOMBSTONE.  Does not re-execute later publishes."""
from analysis.rulelib import *
from analysis.mir import leaves, calls_in, show, walk, short
from rules import storage_shared as ss, dir_shared as ds, c07
EXPLANATION = __doc__
FLOOR = 14
USER_QUERIES = ('StorageManager::get_user_state', 'StorageManager::get_user_data', 'StorageManager::get_user_state_versions',
                'Database::get_user_state', 'Database::get_user_data', 'Database::get_user_state_versions')


def run(ctx):
    history_selection_value_blind(ctx)
    prog = ctx.prog
    b = prog.fn_and_inner(ss.SM + 'tombstone_value_states')
    where = '%s:%s' % (b.file, b.line)
    ws = find_events(b, 'StorageManager::batch_set') + find_events(b, 'StorageManager::set') + \
        [x for cal in ss.DB_WRITES for x in find_events(b, cal)]
    direct = [x for cal in ss.DB_WRITES for x in find_events(b, cal)]
    ctx.ob('C20.W.via_manager', 'RF-SIB', bool(ws) and not direct, b.path, where,
           'tombstoning writes through StorageManager::batch_set (cache and transaction aware)' if ws and not direct else
           'tombstoning bypasses the manager\'s write API (cache would keep the old value)')
    recs = []
    pushes = []
    for ev, c in ws:
        a = arg(c, 1)
        base = a
        muts = []
        while base[0] == 'mutby':
            muts += list(base[1])
            base = base[2]
        okset = base[0] == 'call' and call_is(base, 'Vec::new') or show(base).startswith('vec')
        for m in muts:
            if call_is(m, 'Vec::push'):
                pushes.append(m)
                recs.append(arg(m, 1))
            elif not call_is(m, ('deref_mut', 'deref')):
                okset = False
        only_vs = bool(recs) and all(r[0] == 'agg' and r[1] == 'DbRecord' and r[2] == 'ValueState' for r in recs)
        ctx.ob('C20.W.write_set', 'RF-EFFECT', bool(okset and only_vs), b.path, '%s:%s' % (b.file, ev['line']),
               'the only records written are DbRecord::ValueState built in this function' if okset and only_vs else
               'tombstoning writes records other than freshly built ValueState records: %s' % [show(r)[:80] for r in recs][:3],
               key='RF-EFFECT|C20.write_set')
    for r in recs:
        if not (r[0] == 'agg' and r[2] == 'ValueState'):
            continue
        vs = dict(r[3]).get('0')
        if not vs or vs[0] != 'agg':
            ctx.ob('C20.W.literal', 'RF-BIND', False, b.path, where, 'record is not a ValueState literal: %s' % show(r)[:120])
            continue
        f = dict(vs[3])
        srcs = set()
        bad = []
        for n in ('epoch', 'label', 'username', 'version'):
            root, path = split_fields(f.get(n, ('unk',)))
            if not (path == n or path.endswith('.' + n)):
                bad.append('%s <- %s' % (n, show(f.get(n, ('unk',)))[:60]))
            srcs.add((root, path[:-len(n)]))
        val = f.get('value', ('unk',))
        tomb = 'TOMBSTONE' in show(val) and not [l for l in leaves(val) if not l.startswith('const:')]
        ok = not bad and len(srcs) == 1 and tomb
        ctx.ob('C20.W.metadata', 'RF-BIND', ok, b.path, where,
               'rewritten record keeps epoch/label/username/version of the stored state (%s), value = TOMBSTONE' % show(list(srcs)[0][0])[:80] if ok else
               'rewritten record does not preserve the stored state\'s key and metadata: %s%s' % (bad, '' if tomb else '; value is not the TOMBSTONE constant'),
               key='RF-BIND|C20.metadata')
    # cut-off predicate
    pushblocks = [ev['pos'][0] for ev, c in find_events(b, 'Vec::push')]
    elem = lambda x, suffix: split_fields(x)[1].endswith(suffix) and has_call(split_fields(x)[0], 'get_user_data')
    d1 = decisions(b, lambda fc: fc[0] == 'rel' and fc[1] == 'le' and elem(fc[2], '.epoch') and access_path(fc[3]) == 'epoch')
    d2 = decisions(b, lambda fc: fc[0] == 'rel' and fc[1] == 'ne' and any('TOMBSTONE' in show(x) for x in fc[2:4]) and
                   any(elem(x, '.value.0') for x in fc[2:4]))
    ok1 = bool(d1 and pushblocks) and all(edge_dominates(b, (d1[0]['block'], d1[0]['true']), pb) for pb in pushblocks)
    ok2 = bool(d2 and pushblocks) and all(edge_dominates(b, (d2[0]['block'], d2[0]['true']), pb) for pb in pushblocks)
    # nothing else decides: from the loop body, avoiding the two decisions' false edges, push is always reached
    ctx.ob('C20.P.cutoff', 'RF-GUARD', ok1, b.path, where, 'a state is rewritten only if state.epoch <= cut-off epoch' if ok1 else
           'rewrite is not guarded by `state.epoch <= epoch`', key='RF-GUARD|C20.cutoff')
    ctx.ob('C20.P.not_already', 'RF-GUARD', ok2, b.path, where, 'a state is rewritten only if its value is not already TOMBSTONE' if ok2 else
           'rewrite is not guarded by `value != TOMBSTONE`', key='RF-GUARD|C20.not_already')
    others = [d for d in decisions(b, lambda fc: True) if d not in d1 and d not in d2 and b.in_loop(d['block']) and
              any(pb in b._reach_from(d['block']) for pb in pushblocks) and d.get('line') and not _is_log(b, d)]
    ctx.ob('C20.P.exact', 'RF-GUARD', not others, b.path, where, 'no further condition decides which states are rewritten' if not others else
           'additional condition(s) decide which states are tombstoned: %s' % [show(d['cond'])[:80] for d in others][:3], key='RF-GUARD|C20.exact')
    # commitments never read value states
    roots = ['get_root_hash', 'get_root_hash_safe', 'get_membership_proof', 'get_non_membership_proof', 'get_append_only_proof', 'batch_insert_nodes']
    for r in roots:
        rb = prog.fn_and_inner(ds.AZ + r)
        seen, parent = prog.reachable([rb.path])
        hit = [n for n in seen if any(n.endswith('::' + q) or n.endswith(q) for q in USER_QUERIES)]
        ctx.ob('C20.E.commitments[%s]' % r, 'RF-EFFECT', not hit, rb.path, '%s:%s' % (rb.file, rb.line),
               'no user-state query is reachable from Azks::%s (%d bodies)' % (r, len(seen)) if not hit else
               'Azks::%s can read value states: %s' % (r, ' -> '.join(short(x) for x in prog.path_to(parent, hit[0]))), key='RF-EFFECT|C20.commit|%s' % r)
    c07.vs_rules(ctx, 'C20')


def _is_log(b, d):
    return 'Level::' in show(d['cond']) or 'max_level' in show(d['cond'])


def history_selection_value_blind(ctx):
    """tombstoning rewrites only `value`; the server's choice of which states a key-history request covers must not
    look at it, or a tombstoned label's history changes shape (seeded change C20-r1-b filtered tombstoned states out
    of MostRecent(n)).  No branch condition and no filter/retain closure in Directory::key_history depends on a value
    state's `value` field or on TOMBSTONE."""
    import re
    from rules import dir_shared as ds
    from analysis.mir import leaves, walk
    prog = ctx.prog
    kh = prog.fn_and_inner(ds.D + 'key_history')
    bodies = [kh] + [c for c in prog.children(kh.path)]
    bad, n = [], 0
    for b in bodies:
        exprs = []
        for sb, t in b.switches():
            exprs.append((b.loc((sb, len(b.blocks[sb]['s']))), b.expr_op(t['d'], (sb, len(b.blocks[sb]['s'])))))
        if b.kind == 'closure':
            exprs.append(('%s:%s' % (b.file, b.line), result_expr(b)))
        for where, e in exprs:
            n += 1
            lv = leaves(e)
            if any(re.search(r'(^|\.)value(\.|\[|$)', l) for l in lv) or any(x[0] == 'const' and 'TOMBSTONE' in str(x[1]) for x in walk(e)) or \
                    'TOMBSTONE' in show(e):
                bad.append('%s: %s' % (where, show(e)[:100]))
    ctx.ob('C20.H.selection_value_blind', 'RF-FLOW', not bad and n >= 5, kh.path, bad[0].split(': ')[0] if bad else '%s:%s' % (kh.file, kh.line),
           'no decision of key_history (%d branch conditions / closure results) depends on a stored value' % n if not bad and n >= 5 else
           'key_history decides by the stored value (tombstoned states would be treated differently): %s' % (bad or 'only %d decisions found' % n),
           key='RF-FLOW|C20.selection_value_blind')
