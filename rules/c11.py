"""C11 — a reader of a partially written commit still sees the previous epoch
(structural part).

Decides: the epoch record is strictly last in commit order (priority
constants, sort key, no mutation between sort and write, last-record guard,
in-memory database applies in vector order); tree-node records are fetched
only through the as-of-epoch selectors and `latest_node`/`previous_node` are
read nowhere else; every node `determine_node_to_get` returns was compared
`last_epoch <= target_epoch`; `write_to_storage` keeps the previous version
"as of last_epoch - 1".  Does not decide behaviour at each crash point."""
from analysis.rulelib import *
from analysis.mir import leaves, calls_in, show, walk, short, term_is
from rules import storage_shared as ss

EXPLANATION = __doc__
FLOOR = 17
TN = 'akd::tree_node::'


def run(ctx):
    priority_rules(ctx, 'C11')
    readers_choose_by_epoch(ctx, 'C11')
    selection_predicate(ctx, 'C11')
    previous_kept(ctx, 'C11')
    is_new_flags(ctx, 'C11')
    readers_filter_states(ctx, 'C11')
    writes_inside_commit(ctx, 'C11')
    ss.transaction_lifecycle(ctx, 'C11')
    bounded_reads(ctx, 'C11')


def priority_rules(ctx, pfx):
    prog = ctx.prog
    b = prog.one('akd::storage::types::DbRecord::transaction_priority')
    ve = variant_edges(b, lambda x: access_path(x) == 'self')
    ok, detail = False, 'no dispatch on the record variant'
    if ve:
        v = ve[0]

        def const_of(t):
            seen = set()
            while t not in seen:
                seen.add(t)
                for s in b.blocks[t]['s']:
                    if s['k'] == 'assign' and s['p'] == [0] and s['r']['k'] == 'use' and 'k' in s['r']['o'] and 'int' in s['r']['o']['k']:
                        return s['r']['o']['k']['int']
                ss_ = b.succ(t)
                if len(ss_) != 1:
                    return None
                t = ss_[0]
            return None
        consts = {n: const_of(t) for n, t in v['edges'].items()}
        other_targets = [t for n, t in v['edges'].items() if n != 'Azks']
        if v['else'] is not None and b.blocks[v['else']]['t']['k'] != 'unreachable':
            consts['<catch-all>'] = const_of(v['else'])
        az = consts.get('Azks')
        others = [c for n, c in consts.items() if n != 'Azks']
        ok = az is not None and others and all(c is not None and c < az for c in others) and 'Azks' in v['edges']
        detail = 'priorities %s: Azks (explicit arm) is strictly greatest' % consts if ok else \
            'the epoch record does not sort strictly after every other record kind: priorities %s' % consts
    ctx.ob(pfx + '.PRIO.constants', 'RF-GUARD', ok, b.path, '%s:%s' % (b.file, b.line), detail, key='RF-GUARD|PRIO.constants')
    # StorageManager::commit_transaction: records only borrowed between Transaction::commit and Database::batch_set
    cm = prog.fn_and_inner(ss.SM + 'commit_transaction')
    ws = find_events(cm, 'Database::batch_set')
    ok = False
    detail = 'no Database::batch_set in StorageManager::commit_transaction'
    if ws:
        rec = arg(ws[0][1], 1)
        ok = spec_match(rec, ('try', ('call', 'Transaction::commit_transaction', ['self.transaction'])))
        detail = 'commit writes exactly the sorted log returned by Transaction::commit_transaction' if ok else \
            'records handed to the database are not the untouched sorted log: %s' % show(rec)[:200]
    ctx.ob(pfx + '.PRIO.no_mutation', 'RF-ORDER', ok, cm.path, '%s:%s' % (cm.file, cm.line), detail, key='RF-ORDER|PRIO.no_mutation')
    # last record must be the epoch record, checked before the write
    def lastp(fc):
        return fc[0] == 'isvariant' and has_call(fc[1], 'last') and has_call(fc[1], 'Transaction::commit_transaction')
    gs = [g for g in cm.guards() if g['fail'] and any(lastp(fc) for fc in failconds(cm, g))]
    ok = False
    if gs and ws:
        wb = ws[0][0]['pos'][0]
        fv = set()
        for g in gs:
            for fc in failconds(cm, g):
                fv |= set(fc[2])
        r = cm.reach_avoiding([0], avoid_blocks=[g['block'] for g in gs])
        ok = wb not in r and {'None', 'TreeNode', 'ValueState'} <= fv
    ctx.ob(pfx + '.PRIO.last_is_azks', 'RF-GUARD', ok, cm.path, '%s:%s' % (cm.file, gs[0]['line'] if gs else cm.line),
           'commit refuses a log whose last record is not the epoch record, before writing' if ok else
           'the database write is reachable without checking that the last record is the epoch record', key='RF-GUARD|PRIO.last_is_azks')
    # in-memory database applies records in vector order
    mb = prog.fn_and_inner('akd::storage::memory::<AsyncInMemoryDatabase as Database>::batch_set')
    ins = [(ev, c) for ev, c in find_events(mb, 'DashMap::insert')]
    ok = bool(ins)
    for ev, c in ins:
        a = arg(c, 2) if len(c[3]) > 2 else arg(c, 1)
        chain = [(short(x[2] or x[1]) or '').split('::')[-1] for x in calls_in(a)]
        if any(n in ('rev', 'sort', 'sort_by', 'sort_by_key', 'skip', 'take', 'filter') for n in chain):
            ok = False
    loops = [t for pos, t in mb.call_sites() if (short(t.get('res') or t.get('fn')) or '').endswith('::next')]
    its = [mb.expr_op(t['args'][0], (0, 0)) for t in loops]
    ctx.ob(pfx + '.PRIO.memory_order', 'RF-ORDER', ok and len(loops) == 1, mb.path, '%s:%s' % (mb.file, mb.line),
           'in-memory batch_set applies the records in one pass in vector order' if ok and len(loops) == 1 else
           'in-memory batch_set no longer applies records in a single in-order pass')


def readers_choose_by_epoch(ctx, pfx):
    prog = ctx.prog
    allowed_fetch = {TN + 'TreeNodeWithPreviousValue::get_appropriate_tree_node_from_storage',
                     TN + 'TreeNodeWithPreviousValue::batch_get_appropriate_tree_node_from_storage',
                     'akd::append_only_zks::Azks::get_next_node_in_child_path_from_cache'}
    bad, n = [], 0
    for p, b in prog.bodies.items():
        if b.crate != 'akd' or '::tests' in p or 'test_utils' in p:
            continue
        base = p.split('::{closure')[0]
        for pos, t in b.call_sites():
            if term_is(t, ('StorageManager::get', 'StorageManager::batch_get', 'StorageManager::get_from_cache_only',
                           'StorageManager::get_direct')) and any('TreeNodeWithPreviousValue' in g for g in t.get('gen', [])):
                n += 1
                if base not in allowed_fetch:
                    bad.append('%s (%s)' % (base, b.loc(pos)))
                else:
                    # the fetched record must go through determine_node_to_get
                    if not any(term_is(t2, 'determine_node_to_get') for t2 in b.calls()):
                        bad.append('%s fetches a node record without determine_node_to_get' % base)
    # floor: the two selectors always; the cache-only walk (2 more call sites) exists with greedy_lookup_preload only
    need = 3 if 'greedy_lookup_preload' in prog.features.get('akd', []) else 2
    ctx.ob(pfx + '.EFFECT.node_fetchers', 'RF-EFFECT', not bad and n >= need, TN, None,
           'tree-node records are fetched only by the as-of-epoch selectors (%d call sites), each via determine_node_to_get' % n
           if not bad else 'tree-node record fetched outside the as-of-epoch selectors: %s' % bad, key='RF-EFFECT|node_fetchers')
    allowed_read = {TN + 'TreeNodeWithPreviousValue::determine_node_to_get', TN + '<TreeNodeWithPreviousValue as SizeOf>::size_of',
                    'akd::storage::memory::<AsyncInMemoryDatabase as Database>::batch_set',
                    'akd::storage::memory::<AsyncInMemoryDatabase as Database>::set'}
    bad, n = [], 0
    for p, b in prog.bodies.items():
        if b.crate != 'akd' or '::tests' in p or 'test_utils' in p or b.raw.get('exp'):
            continue
        base = p.split('::{closure')[0]
        for pos, s in b.stmts():
            for pl in places_read(s):
                for el in pl[1:]:
                    if isinstance(el, dict) and el.get('o') == 'TreeNodeWithPreviousValue' and el.get('f') in ('latest_node', 'previous_node'):
                        n += 1
                        if base not in allowed_read and not derived_impl(p):
                            bad.append('%s reads .%s (%s)' % (base, el['f'], b.loc(pos)))
    ctx.ob(pfx + '.OWN.node_versions', 'RF-OWN', not bad and n >= 2, TN, None,
           'latest_node / previous_node are read only by determine_node_to_get, size_of and the in-memory child culling (%d reads)' % n
           if not bad else 'stored node versions read without choosing by epoch: %s' % sorted(set(bad))[:6], key='RF-OWN|node_versions')


def derived_impl(path):
    return any(x in path for x in ('<TreeNodeWithPreviousValue as Clone>', '<TreeNodeWithPreviousValue as PartialEq>', '<TreeNodeWithPreviousValue as Debug>',
                                   '<TreeNodeWithPreviousValue as Hash>', '<TreeNodeWithPreviousValue as PartialOrd>', '<TreeNodeWithPreviousValue as Ord>',
                                   '<TreeNodeWithPreviousValue as Eq>', 'Serialize', 'Deserialize'))


def places_read(s):
    out = []

    def op(o):
        p = o.get('c') or o.get('m')
        if p:
            out.append(p)
    k = s.get('k')
    if k == 'assign':
        r = s['r']
        for key in ('o', 'a', 'b'):
            if key in r and isinstance(r[key], dict):
                op(r[key])
        if 'p' in r:
            out.append(r['p'])
        for o in r.get('ops', []):
            op(o)
    elif k == 'call':
        for a in s['args']:
            op(a)
    elif k == 'switch':
        op(s['d'])
    return out


def selection_predicate(ctx, pfx):
    prog = ctx.prog
    b = prog.one(TN + 'TreeNodeWithPreviousValue::determine_node_to_get')
    oks = ok_aggregates(b)
    ctx.ob(pfx + '.SEL.count', 'FLOOR', len(oks) >= 2, b.path, '%s:%s' % (b.file, b.line), '%d Ok(node) returns' % len(oks))
    for pos, e in oks:
        ap = access_path(e)
        good = False
        for bb, t in b.switches():
            cpos = (bb, len(b.blocks[bb]['s']))
            cond = b.expr_op(t['d'], cpos)
            if cond[0] == 'discr':
                continue
            f0 = [tb for v, tb in t['vals'] if v == 0]
            for truth, tgt in ((True, t['else']), (False, f0[0] if f0 else None)):
                if tgt is None:
                    continue
                for fc in norm_bool(cond, truth):
                    if fc[0] == 'rel' and fc[1] == 'le' and access_path(fc[2]) == (ap or '?') + '.last_epoch' and \
                            access_path(fc[3]) == 'target_epoch' and edge_dominates(b, (bb, tgt), pos[0]):
                        good = True
        ctx.ob('%s.SEL[%s]' % (pfx, ap), 'RF-GUARD', good, b.path, b.loc(pos),
               'returned node %s was compared last_epoch <= target_epoch' % ap if good else
               'node %s is returned without comparing its last_epoch with target_epoch: a reader more than one epoch behind '
               'receives a node from a later epoch' % ap, key='RF-GUARD|SEL|%s' % ap)


def previous_kept(ctx, pfx):
    prog = ctx.prog
    b = prog.fn_and_inner(TN + 'TreeNode::write_to_storage')
    recs = []
    for pos, s in b.stmts():
        if s.get('k') == 'assign' and s['r']['k'] == 'agg' and s['r'].get('adt') == 'TreeNodeWithPreviousValue':
            recs.append((pos, b._expr_rvalue(s['r'], pos, 0)))
    ok = False
    detail = 'no TreeNodeWithPreviousValue record is built'
    for pos, e in recs:
        f = dict(e[3])
        prev = f.get('previous_node', ('unk',))
        cs = list(calls_in(prev, 'get_appropriate_tree_node_from_storage'))
        has_none = any(x[0] == 'agg' and x[1] == 'Option' and x[2] == 'None' for x in walk(prev))
        asof = cs and any(x[0] == 'bin' and x[1] == 'Sub' and access_path(x[2]) == 'self.last_epoch' and is_const(x[3], 1) for x in walk(arg(cs[0], 2)))
        keyok = cs and has_leaf(arg(cs[0], 1), 'self.label')
        ok = access_path(f.get('latest_node', ('unk',))) == 'self' and access_path(f.get('label', ('unk',))) == 'self.label' and bool(asof and keyok and has_none)
        detail = 'record = {label: self.label, latest: self, previous: stored node as of last_epoch - 1 (None if new / not found)}' if ok else \
            'record literal is not {self.label, self, node as of self.last_epoch - 1}: %s' % show(e)[:260]
    ctx.ob(pfx + '.BIND.previous_kept', 'RF-BIND', ok, b.path, '%s:%s' % (b.file, b.line), detail, key='RF-BIND|previous_kept')
    # the stored node is looked up unless the caller said the node is new — and for no other reason: a further
    # disjunct ("nothing precedes epoch 0") drops the previous version of an existing node (seeded change C11-r2-a)
    look = [ev['pos'][0] for ev, c in find_events(b, 'get_appropriate_tree_node_from_storage')]
    dn = [d for d in decisions(b, lambda fc: fc[0] == 'bool' and access_path(fc[1]) == 'is_new' and fc[2] is True) if d['true'] is not None]
    ok2 = False
    if recs and look and dn:
        reach = b.reach_avoiding([0], avoid_blocks=look, avoid_edges=[(dn[0]['block'], dn[0]['true'])])
        ok2 = all(pos[0] not in reach for pos, e in recs)
    ctx.ob(pfx + '.BIND.previous_skipped_only_if_new', 'RF-ORDER', ok2, b.path, '%s:%s' % (b.file, dn[0]['line'] if dn else b.line),
           'the lookup of the stored node is skipped only on the `is_new` edge' if ok2 else
           'the record can be built without looking up the stored node although is_new is false (previous version dropped)',
           key='RF-ORDER|previous_skipped_only_if_new')
    is_new = decisions(b, lambda fc: fc[0] == 'bool' and access_path(fc[1]) == 'is_new')
    ctx.ob(pfx + '.BIND.previous_none_only_if_new', 'RF-GUARD', bool(is_new), b.path, '%s:%s' % (b.file, b.line),
           'previous = None without a lookup only under is_new' if is_new else 'no decision on is_new guards the lookup of the previous version')


def bounded_reads(ctx, pfx):
    """values of an unfinished epoch are invisible: every value-state query on a
    request / publish path is bounded by the snapshot epoch (LeqEpoch(snapshot) or a
    retain(epoch <= snapshot) on the full list)"""
    from rules import dir_shared as ds
    prog = ctx.prog
    n = 0
    for fn in ('publish', 'get_lookup_info', 'key_history'):
        b = prog.fn_and_inner(ds.D + fn)
        for cal in ('StorageManager::get_user_state_versions', 'StorageManager::get_user_state'):
            for ev, c in find_events(b, cal):
                n += 1
                fl = arg(c, 2)
                ok = fl[0] == 'agg' and fl[2] == 'LeqEpoch'
                ctx.ob('%s.SNAP.bounded[%s:%s]' % (pfx, fn, cal.split('::')[-1]), 'RF-SNAP', ok, b.path, '%s:%s' % (b.file, ev['line']),
                       'value states are read with LeqEpoch(..)' if ok else 'value states are read with %s: rows of an unfinished epoch become visible' % show(fl)[:60],
                       key='RF-SNAP|bounded|%s|%s' % (fn, cal))
        for ev, c in find_events(b, 'StorageManager::get_user_data'):
            n += 1
            used = [x for e2 in b.events() for x in e2['calls'] if isinstance(x, tuple) and x[0] == 'call' and call_is(x, 'create_single_update_proof')]
            ok = bool(used) and any(call_is(m, 'Vec::retain') for m in _muts_all(arg(used[0], 3)))
            ctx.ob('%s.SNAP.bounded[%s:get_user_data]' % (pfx, fn), 'RF-SNAP', ok, b.path, '%s:%s' % (b.file, ev['line']),
                   'the full state list is filtered by retain(epoch <= snapshot epoch) before use' if ok else 'the full state list is used unfiltered',
                   key='RF-SNAP|bounded|%s|get_user_data' % fn)
    ctx.ob('%s.SNAP.bounded.count' % pfx, 'FLOOR', n >= 3, ds.D, None, '%d value-state reads on publish / request paths' % n)


def _muts_all(e):
    out = []
    for x in walk(e):
        if x[0] == 'mutby':
            out += list(x[1])
    return out


def is_new_flags(ctx, pfx):
    """`write_to_storage(storage, is_new)` skips the lookup of the stored node when is_new is true and writes
    `previous_node: None`.  For an existing node that destroys the previous-epoch version a lagging reader needs.
    Every call site on the insertion path must therefore pass either the literal `false` or the very flag that the
    recursive insertion returned *together with that node* (`(node, is_new, _) = recursive_batch_insert_nodes(..)`).
    (Seeded change C11-r1-a passed `is_new || child_is_new`.)"""
    from rules import dir_shared as ds
    prog = ctx.prog
    n = 0
    bad = []
    for fn in ('recursive_batch_insert_nodes', 'batch_insert_nodes'):
        b = prog.fn_and_inner(ds.AZ + fn)
        for ev, c in find_events(b, 'TreeNode::write_to_storage'):
            if len(c[3]) < 3:
                continue
            n += 1
            recv, flag = strip_mut(arg(c, 0)), strip_mut(arg(c, 2))
            if flag[0] == 'const' and flag[1] in (0, False):
                continue
            rb, rf = split_fields(recv)
            fb, ff = split_fields(flag)
            # node and flag are components .0 and .1 of one and the same tuple value (the insertion's result)
            ok = rb == fb and rf.split('.')[-1:] == ['0'] and ff.split('.')[-1:] == ['1'] and rf.split('.')[:-1] == ff.split('.')[:-1]
            if not ok:
                bad.append('%s: write_to_storage(%s, is_new = %s)' % (b.loc(ev['pos']), show(recv)[:50], show(flag)[:90]))
    ctx.ob(pfx + '.BIND.is_new_flag', 'RF-BIND', not bad and n >= 5, ds.AZ + 'recursive_batch_insert_nodes', bad[0].split(':')[0] + ':' + bad[0].split(':')[1] if bad else None,
           'every node is written with `false` or with the is_new flag returned with that node (%d call sites)' % n if not bad and n >= 5 else
           'a node is written with an is_new flag that is not its own (previous version would be dropped): %s' % (bad or ['only %d call sites found' % n]),
           key='RF-BIND|is_new_flag')


def writes_inside_commit(ctx, pfx):
    """every record of a publish reaches storage through the one committed transaction: in `publish`, no storage
    write (set / batch_set / tombstone) is reachable after commit_transaction has been called, and every write is
    dominated by the successful begin_transaction.  A record written after the commit lands after the epoch record
    (seeded change C11-r1-b wrote the value states in a second batch)."""
    from rules import dir_shared as ds
    prog = ctx.prog
    b = prog.fn_and_inner(ds.D + 'publish')
    commit = [ev for ev, c in find_events(b, 'StorageManager::commit_transaction')]
    writes = [(ev, c) for cal in ('StorageManager::set', 'StorageManager::batch_set', 'StorageManager::tombstone_value_states',
                                  'Azks::batch_insert_nodes', 'TreeNode::write_to_storage') for ev, c in find_events(b, cal)]
    bg = [g for g in b.guards() if g['fail'] and any(fc[0] == 'pred' and fc[1].endswith('begin_transaction') and fc[3] is False
                                                      for fc in failconds(b, g))]
    bad = []
    if commit:
        after = b._reach_from(commit[0]['pos'][0])
        for ev, c in writes:
            if ev['pos'][0] in after and ev['pos'][0] != commit[0]['pos'][0]:
                bad.append('%s after commit_transaction (%s)' % (short(c[2] or c[1]), b.loc(ev['pos'])))
    for ev, c in writes:
        if not bg or not edge_dominates(b, (bg[0]['block'], bg[0]['pass'][0][1]), ev['pos'][0]):
            bad.append('%s outside the transaction (%s)' % (short(c[2] or c[1]), b.loc(ev['pos'])))
    ok = bool(commit) and len(writes) >= 2 and not bad
    ctx.ob(pfx + '.ORDER.writes_inside_commit', 'RF-ORDER', ok, b.path, '%s:%s' % (b.file, commit[0]['line'] if commit else b.line),
           'all %d storage writes of publish lie between begin_transaction and commit_transaction' % len(writes) if ok else
           'publish writes storage outside its committed transaction: %s' % (bad or 'no commit / writes found'),
           key='RF-ORDER|writes_inside_commit')


def readers_filter_states(ctx, pfx):
    """values of the unfinished epoch are invisible: key_history drops value states newer than its snapshot epoch
    *before* any selection by count, and lookups ask for the state at-or-before the snapshot epoch
    (seeded change C11-r2-b moved the filter behind the MostRecent cut)"""
    from rules import dir_shared as ds
    prog = ctx.prog
    b = prog.fn_and_inner(ds.D + 'key_history')

    def sites(name):
        return [(pos, t) for pos, t in b.call_sites() if (short(t.get('res') or t.get('fn')) or '').endswith(name)]
    ret = sites('Vec::retain')
    okf = False
    for pos, t in ret:
        clo = b.expr_op(t['args'][1], pos) if len(t['args']) > 1 else ('unk',)
        cb = prog.bodies.get(clo[1]) if clo[0] == 'closure' else None
        if cb is not None:
            r = result_expr(cb)
            okf = okf or (r[0] == 'bin' and r[1] == 'Le' and split_fields(r[2])[1].endswith('epoch') and access_path(r[3]) == 'current_epoch')
    lim = sites('Iterator::take') + sites('Vec::truncate')
    oko = okf and bool(lim) and all(any(b.blk_dominates(p[0], l[0]) and (p[0] != l[0] or p[1] < l[1]) for p, _ in ret) for l, _ in lim)
    ctx.ob(pfx + '.FILTER.history', 'RF-ORDER', oko, b.path, '%s:%s' % (b.file, ret[0][1].get('l') if ret else b.line),
           'key_history drops states with epoch > snapshot epoch before the MostRecent cut' if oko else
           'key_history does not drop the states of an unfinished epoch before selecting by count (filter present=%s)' % okf,
           key='RF-ORDER|C11.filter.history')
    gl = prog.fn_and_inner(ds.D + 'get_lookup_info')
    q = [c for ev, c in find_events(gl, 'StorageManager::get_user_state')]
    okl = bool(q) and all(arg(c, 2)[0] == 'agg' and arg(c, 2)[2] == 'LeqEpoch' and access_path(dict(arg(c, 2)[3]).get('0', ('unk',))) == 'epoch' for c in q)
    ctx.ob(pfx + '.FILTER.lookup', 'RF-BIND', okl, gl.path, '%s:%s' % (gl.file, gl.line),
           'lookups read the value state with LeqEpoch(snapshot epoch)' if okl else
           'lookup info is not read with LeqEpoch(epoch): %s' % [show(arg(c, 2))[:60] for c in q], key='RF-BIND|C11.filter.lookup')
