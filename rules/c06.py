"""C06 — a verifying lookup proof reports only the latest version: obligation
table of `lookup_verify` and of the verifier primitives it relies on.

Decides: version <= current_epoch guard; the three sub-proof checks are called
with exactly the (freshness, version, VRF proof, tree proof) tuples of the
protocol, lie on every path to Ok, and their Results are propagated; the
returned VerifyResult fields are the checked proof fields; every LookupProof
field reaches a check (RF-COVER); inherits C05's obligations through
verify_nonexistence/verify_existence.  Does not decide soundness of the
protocol given all checks, nor marker arithmetic."""
from analysis.rulelib import *
from analysis.mir import leaves, calls_in, show
from rules import verify_shared as vs

EXPLANATION = __doc__
FLOOR = 25
LV = 'akd_core::verify::lookup::lookup_verify'
FIELDS = ['epoch', 'value', 'version', 'existence_vrf_proof', 'existence_proof', 'marker_vrf_proof', 'marker_proof',
          'freshness_vrf_proof', 'freshness_proof', 'commitment_nonce']


def run(ctx):
    prog = ctx.prog
    b = prog.one(LV)
    require_guard(ctx, b, 'C06.G1', 'RF-GUARD',
                  lambda fc: fc[0] == 'rel' and fc[1] == 'lt' and access_path(fc[2]) == 'current_epoch' and
                  access_path(fc[3]) == 'proof.version',
                  'reject proof.version > current_epoch')
    require_call(ctx, b, 'C06.B1', 'RF-BIND', 'verify_existence_with_val',
                 bind(['vrf_public_key', 'root_hash', 'akd_label', 'proof.value', 'proof.epoch', 'proof.commitment_nonce',
                       vs.FRESH, 'proof.version', 'proof.existence_vrf_proof', 'proof.existence_proof']),
                 'existence of (Fresh, version) with value, epoch and nonce')
    marker = ('bin', 'Shl', ('const', 1), ('call', 'get_marker_version_log2', ['proof.version']))
    require_call(ctx, b, 'C06.B2', 'RF-BIND', 'verify_existence',
                 bind(['vrf_public_key', 'root_hash', 'akd_label', vs.FRESH, marker, 'proof.marker_vrf_proof', 'proof.marker_proof']),
                 'existence of the marker (Fresh, 1 << marker_log2(version))')
    require_call(ctx, b, 'C06.B3', 'RF-BIND', 'verify_nonexistence',
                 bind(['vrf_public_key', 'root_hash', 'akd_label', vs.STALE, 'proof.version', 'proof.freshness_vrf_proof',
                       'proof.freshness_proof']),
                 'non-existence of (Stale, version): the version has not been superseded')
    oks = ok_aggregates(b)
    good = bool(oks)
    for pos, e in oks:
        if not (e[0] == 'agg' and e[1] == 'VerifyResult' and
                all(access_path(field_of_agg(e, f)) == 'proof.' + f for f in ('epoch', 'version', 'value'))):
            good = False
    ctx.ob('C06.R1', 'RF-UNIT', good, LV, '%s:%s' % (b.file, b.line),
           'VerifyResult{epoch,version,value} are the checked proof fields' if good else
           'returned VerifyResult fields are not proof.{epoch,version,value}: %s' % [show(e) for _, e in oks])
    # RF-COVER: every LookupProof field is an argument of a checked call or guard
    lv = guard_leaves(b)
    adt = [a for a in prog.adts_by_name.get('LookupProof', []) if a['path'].startswith('akd_core::types')]
    declared = [f['n'] for a in adt for v in a['variants'] for f in v['fields']]
    ctx.ob('C06.COVER.decl', 'RF-COVER', sorted(declared) == sorted(FIELDS), 'akd_core::types::LookupProof', None,
           'LookupProof fields = %s' % declared)
    for f in declared:
        p = 'proof.' + f
        ok = any(l == p or l.startswith(p + '.') for l in lv)
        ctx.ob('C06.COVER[%s]' % f, 'RF-COVER', ok, LV, '%s:%s' % (b.file, b.line),
               'field %s reaches a propagated check' % f if ok else 'field %s is accepted without reaching any check' % f)
    vs.primitives(ctx, 'C06', which=('label', 'existence', 'with_val', 'nonexistence'))
    # inherits the non-membership obligations (C05): evaluate the deepest-anchor guard here too
    from rules import c05
    sub = SubCtx(ctx, 'C06.inherit.')
    c05.nonmembership(sub)


def field_of_agg(e, f):
    for n, v in e[3]:
        if n == f:
            return v
    return ('unk', 'nofield')


class SubCtx:
    """re-labels obligations of an inherited rule set"""
    def __init__(self, ctx, prefix):
        self._c = ctx
        self._p = prefix
        self.prog = ctx.prog
        self.progs = ctx.progs
        self.tier = ctx.tier

    def ob(self, oid, rule, ok, fn=None, where=None, detail='', key=None, nontrivial=True):
        return self._c.ob(self._p + oid, rule, ok, fn, where, detail, key=(self._p + key) if key else None, nontrivial=nontrivial)

    def count(self, *a):
        return self._c.count(*a)
