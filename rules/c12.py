"""C12 — concurrent publishes take effect one after another (lock discipline).

Decides: an exclusion region spans from the reads a publish depends on (epoch
record, user versions) to the durable write: either a tokio Mutex/RwLock-write
guard bound to a named local, acquired before those reads, shared by clones
and held across the await of commit_transaction, or the transaction flag
acquired before the reads and lowered only after Database::batch_set
succeeded; the flag itself is one atomic swap whose result is branched on.
Does not decide serializability of all interleavings."""
from analysis.rulelib import *
from analysis.mir import show, short
from rules import dir_shared as ds, storage_shared as ss
EXPLANATION = __doc__
FLOOR = 6
ASSUMPTIONS = ["publishes through Directory values created independently over clones of one StorageManager are outside the property's 'a directory or clones of it'"]


def run(ctx):
    prog = ctx.prog
    b = prog.fn_and_inner(ds.D + 'publish')
    reads = [(ev, c) for cal in ('Directory::retrieve_azks', 'Directory::get_azks_from_storage', 'StorageManager::get_user_state_versions',
                                 'StorageManager::get_user_state', 'StorageManager::get_user_data') for ev, c in find_events(b, cal)]
    commit = [ev for ev, c in find_events(b, 'StorageManager::commit_transaction')]
    ctx.ob('C12.reads', 'FLOOR', len(reads) >= 2 and len(commit) == 1, b.path, '%s:%s' % (b.file, b.line),
           '%d state reads feed the update set; %d commit' % (len(reads), len(commit)))
    if not commit:
        return
    cb = commit[0]['pos'][0]
    why = []
    ok = False
    # mechanism 1: guard region
    for r in ds.guard_region(b):
        acq = r['ev']['pos'][0]
        dom = all(b.blk_dominates(acq, ev['pos'][0]) for ev, c in reads)
        held = ds.held_until(b, r, cb) and all(cb not in b.reach_avoiding([d], avoid_blocks=[]) or d == cb for d in r['drops'])
        shared = lock_shared_by_clones(ctx, r['lock'])
        if dom and held and shared is True:
            ok = True
            ctx.ob('C12.region', 'RF-ORDER', True, b.path, '%s:%s' % (b.file, r['ev']['line']),
                   'exclusive guard `%s` on %s is acquired before every state read and held across commit_transaction; clones share the lock'
                   % (r['name'], r['lock']))
            break
        why.append('guard %s on %s: acquired-before-reads=%s held-until-commit=%s shared-by-clones=%s' % (r['name'], r['lock'], dom, held, shared))
    if not ok:
        # mechanism 2: the transaction flag
        bg = [g for g in b.guards() if g['fail'] and any(fc[0] == 'pred' and fc[1].endswith('begin_transaction') and fc[3] is False
                                                          for fc in failconds(b, g))]
        dom = bool(bg) and all(edge_dominates(b, (bg[0]['block'], bg[0]['pass'][0][1]), ev['pos'][0]) for ev, c in reads)
        cm = prog.fn_and_inner(ss.SM + 'commit_transaction')
        rel = find_events(cm, 'Transaction::commit_transaction')
        ws = find_events(cm, 'Database::batch_set')
        late = False
        if rel and ws:
            g = ss.q_guard_of(cm, ws[0][0], 'Database::batch_set')
            late = bool(g) and edge_dominates(cm, (g['block'], g['pass'][0][1]), rel[0][0]['pos'][0])
        if dom and late:
            ok = True
            ctx.ob('C12.region', 'RF-ORDER', True, b.path, '%s:%s' % (b.file, bg[0]['line']),
                   'the transaction flag is taken before every state read and lowered only after the database write succeeded')
        else:
            first = min(reads, key=lambda x: x[0]['line'])[0] if reads else None
            why.append('transaction flag: taken-before-reads=%s lowered-after-durable-write=%s' % (dom, late))
            ctx.ob('C12.region', 'RF-ORDER', False, b.path, '%s:%s' % (b.file, first['line'] if first else b.line),
                   'no exclusion region spans from the reads publish depends on (epoch record line %s, user versions) to the durable '
                   'write: two concurrent publishes can derive the same next epoch. Candidates: %s' % (
                       first['line'] if first else '?', '; '.join(why)), key='RF-ORDER|C12.region')
    ss.transaction_lifecycle(ctx, 'C12')
    ss.log_writes_only_when_active(ctx, 'C12')
    ds.transaction_bracket(ctx, 'C12')


def lock_shared_by_clones(ctx, lock_path):
    """Directory::clone copies the Arc of the lock field (clones exclude each other)"""
    prog = ctx.prog
    if not lock_path or not lock_path.startswith('self.'):
        return 'lock is not a field of the directory'
    f = lock_path.split('.')[1]
    cl = prog.find('<Directory as Clone>::clone')
    if not cl:
        return 'no Clone impl found'
    e = result_expr(cl[0])
    if e[0] != 'agg':
        return 'clone does not build a Directory literal'
    v = dict(e[3]).get(f)
    if v is None or access_path(v) != 'self.' + f:
        return 'clone() does not share self.%s (%s)' % (f, show(v)[:60] if v else 'missing')
    adt = [a for a in prog.adts_by_name.get('Directory', []) if a['path'].startswith('akd::directory')]
    ty = [x['ty'] for a in adt for vv in a['variants'] for x in vv['fields'] if x['n'] == f]
    if not ty or not ty[0].startswith('std::sync::Arc<'):
        return 'lock field is not an Arc (%s)' % ty
    return True
