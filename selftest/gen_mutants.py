#!/usr/bin/env python3
"""Seeded variants for the self-test (DESIGN.md Appendix A): each is a small
edit of /repo that compiles, leaves the honest single-threaded behaviour the
unit tests exercise (nearly) intact, and breaks exactly one rule instance.
Writes selftest/mutants.json.  `expect` = obligation id prefix(es) that must be
reported violated."""
import json
import os

M = []


def mut(id, prop, expect, file, old, new, note='', also=None, **kw):
    d = {'id': id, 'property': prop, 'expect': expect, 'note': note, 'edits': [{'file': file, 'old': old, 'new': new}]}
    if also:
        d['also'] = also
    d.update(kw)
    M.append(d)


def mut2(id, prop, expect, edits, note='', also=None, **kw):
    d = {'id': id, 'property': prop, 'expect': expect, 'note': note,
         'edits': [{'file': f, 'old': o, 'new': n} for f, o, n in edits]}
    if also:
        d['also'] = also
    d.update(kw)
    M.append(d)


base = 'akd_core/src/verify/base.rs'
hist = 'akd_core/src/verify/history.rs'
look = 'akd_core/src/verify/lookup.rs'
dirf = 'akd/src/directory.rs'
azks = 'akd/src/append_only_zks.rs'
tn = 'akd/src/tree_node.rs'
mgr = 'akd/src/storage/manager/mod.rs'
txn = 'akd/src/storage/transaction.rs'
cache = 'akd/src/storage/cache/high_parallelism.rs'
types = 'akd/src/storage/types.rs'
aud = 'akd/src/auditor.rs'
proto = 'akd_core/src/proto/mod.rs'
wa = 'akd_core/src/configuration/whatsapp_v1.rs'
traits = 'akd_core/src/ecvrf/traits.rs'

# ---------------- C05 / C06 / C07 (verifiers)
mut('c05-drop-lcp-label', 'C05', 'C05.O4', base, '''    if lcp_children != proof.longest_prefix_membership_proof.label
        || lcp_hash != proof.longest_prefix_membership_proof.hash_val''', '''    if lcp_hash != proof.longest_prefix_membership_proof.hash_val''', 'delete the lcp != membership label disjunct')
mut('c05-revert-F1', 'C05', 'C05.O7', base, '''        if child.label != TC::empty_label() && child.label.is_prefix_of(&proof.label) {''',
    '''        if child.label != TC::empty_label() && child.label == proof.label {''', 'deepest-anchor guard weakened to equality (F1 returns)', also=['C06', 'C07'])
mut('c05-nonmember-unchecked', 'C05', 'C05.O6', base, '''    verify_membership::<TC>(root_hash, &proof.longest_prefix_membership_proof)?;

    Ok(())''', '''    let _ = verify_membership::<TC>(root_hash, &proof.longest_prefix_membership_proof);

    Ok(())''', 'anchor membership result dropped')
mut('c05-sibling-label', 'C05', 'C05.M2', base, '''        curr_label = sibling_proof.label;''', '''        curr_label = sibling.label;''', 'fold uses the sibling label instead of the parent label')
mut('c06-drop-question', 'C06', 'C06.B3', look, '''        &proof.freshness_proof,
    )?;''', '''        &proof.freshness_proof,
    )
    .ok();''', 'freshness check result dropped')
mut('c06-drop-version-guard', 'C06', 'C06.G1', look, '''    if proof.version > current_epoch {''', '''    if proof.version > current_epoch && proof.epoch > current_epoch {''', 'version guard weakened')
mut('c06-marker-wrong-vrf', 'C06', ['C06.B2', 'C06.COVER'], look, '''        &proof.marker_vrf_proof,''', '''        &proof.existence_vrf_proof,''', 'marker check uses the existence VRF proof')
mut('c06-freshness-fresh', 'C06', 'C06.B3', look, '''        VersionFreshness::Stale,
        proof.version,''', '''        VersionFreshness::Fresh,
        proof.version,''', 'freshness proof checked for the Fresh label')
mut('c07-prev-epoch', 'C07', 'C07.S3', hist, '''        TC::stale_azks_value(),
        proof.epoch,''', '''        TC::stale_azks_value(),
        proof.epoch - 1,''', 'stale leaf checked at epoch-1')
mut('c07-no-future-loop', 'C07', ['C07.K5'], hist, '''    for (i, version) in future_marker_versions.iter().enumerate() {''',
    '''    for (i, version) in future_marker_versions.iter().enumerate().skip(1) {''', 'first future marker skipped')
mut('c07-mostrecent-less', 'C07', 'C07.H7', hist, '''                Ordering::Less => {
                    if start_version != 1 {''', '''                Ordering::Less => {
                    if start_version != 1 && num_proofs == 0 {''', 'Less arm neutralised')
mut('c07-tombstone-optout', 'C07', ['C07.S2'], hist, '''        (HistoryVerificationParams::AllowMissingValues { .. }, bytes)
            if bytes.0 == crate::TOMBSTONE =>''', '''        (_, bytes)
            if bytes.0 == crate::TOMBSTONE =>''', 'tombstone accepted without opt-in', also=['C20'])
mut('c07-epoch-order', 'C07', 'C07.K2', hist, '''            if update_proof.epoch > previous_update_epoch {''', '''            if update_proof.epoch > previous_update_epoch + 1 {''', 'epoch monotonicity weakened')
mut('c07-len-future', 'C07', 'C07.H11', hist, '''    if proof.future_marker_vrf_proofs.len() != proof.non_existence_of_future_marker_proofs.len() {''',
    '''    if proof.future_marker_vrf_proofs.len() < proof.non_existence_of_future_marker_proofs.len() {''', 'length equality weakened')

# ---------------- C18
mut('c18-drop-version', 'C18', 'C18.F1', wa, '''                &freshness_bytes,
                &version.to_be_bytes(),''', '''                &freshness_bytes,
                &0u64.to_be_bytes(),''', 'version no longer part of the VRF input hash (whatsapp_v1)', also=['C01'])
mut('c18-label-cmp', 'C18', 'C18.VL.cmp', base, '''    if NodeLabel::new(output.to_truncated_bytes(), 256) != node_label {''',
    '''    if NodeLabel::new(output.to_truncated_bytes(), 256).label_len != node_label.label_len {''', 'claimed node label no longer bound to the VRF output', also=['C06', 'C07'])
mut('c18-verify-dropped', 'C18', 'C18.VL.verify', base, '''    vrf_pk.verify(&proof, &hashed_label)?;''', '''    let _ = vrf_pk.verify(&proof, &hashed_label);''', 'VRF verification result dropped')

# ---------------- C09
mut('c09-drop-len', 'C09', 'C09.A2', aud, '''    if proof.epochs.len() != proof.proofs.len() {''', '''    if proof.epochs.len() > proof.proofs.len() {''', 'length guard weakened')
mut('c09-revert-F2', 'C09', 'C09.OPF', aud, '''    verify_prefix_free_labels(&unchanged_with_inserted_nodes)?;
''', '''''', 'prefix-free validation removed (F2 returns)')
mut('c09-epoch-off', 'C09', 'C09.A3', aud, '''            proof.epochs[i] + 1,''', '''            proof.epochs[i],''', 'end epoch off by one')
mut('c09-start-tree', 'C09', 'C09.V1', aud, '''    verify_append_only_hash::<TC>(proof.unchanged_nodes.clone(), start_hash, None).await?;''',
    '''    verify_append_only_hash::<TC>(proof.unchanged_nodes.clone(), start_hash, None)
        .await
        .ok();''', 'start-hash check result dropped')

# ---------------- C10 / C16 / C15 / C11 / C12 / C13 (storage + directory)
mut('c10-no-rollback', 'C10', 'C10.BRACKET.closed', dirf, '''            let _ = self.storage.rollback_transaction();
            // bubble up the err
            return Err(err);''', '''            // bubble up the err
            return Err(err);''', 'rollback removed after a failed insert', also=['C12'])
mut('c10-insert-ok', 'C10', 'C10.ERR', dirf, '''        if let Err(err) = current_azks
            .batch_insert_nodes::<TC, _>(
                &self.storage,
                update_set,
                InsertMode::Directory,
                self.parallelism_config,
            )
            .await
        {
            // If we fail to do the batch-leaf insert, we should rollback the transaction so we can try again cleanly.
            // Only fails if transaction is not currently active.
            let _ = self.storage.rollback_transaction();
            // bubble up the err
            return Err(err);
        }''', '''        current_azks
            .batch_insert_nodes::<TC, _>(
                &self.storage,
                update_set,
                InsertMode::Directory,
                self.parallelism_config,
            )
            .await
            .ok();''', 'insertion errors swallowed')
mut('c10-revert-F4', 'C10', 'C10.ORDER.cache_after_db[commit_transaction]', mgr, '''        // Write to the database
        self.tic_toc(
            METRIC_WRITE_TIME,
            self.db
                .batch_set(records.clone(), DbSetState::TransactionCommit),
        )
        .await?;
        self.increment_metric(METRIC_BATCH_SET);

        // update the cache, only once the records are known to be stored
        if let Some(cache) = &self.cache {
            cache.batch_put(&records).await;
        }''', '''        // update the cache
        if let Some(cache) = &self.cache {
            cache.batch_put(&records).await;
        }
        // Write to the database
        self.tic_toc(
            METRIC_WRITE_TIME,
            self.db
                .batch_set(records.clone(), DbSetState::TransactionCommit),
        )
        .await?;
        self.increment_metric(METRIC_BATCH_SET);''', 'cache filled before the commit write (F4 returns)', also=['C16'])
mut('c10-revert-F9', 'C10', 'C10.ORDER.commit_last', dirf, '''        Ok(EpochHash(next_epoch, root_hash))
    }

    /// Provides proof for correctness of latest version''', '''        let root_hash = current_azks
            .get_root_hash_safe::<TC, _>(&self.storage, next_epoch)
            .await?;
        Ok(EpochHash(next_epoch, root_hash))
    }

    /// Provides proof for correctness of latest version''', 'fallible read after the commit (F9 returns)')
mut('c10-revert-F8', 'C10', 'C10.JOIN[recursive_batch_insert_nodes]', azks, '''        if let Some(result) = right_result {
            let (mut right_node, right_is_new, right_num_inserted) = result?;''', '''        if let Some(result) = right_result {
            let (mut right_node, right_is_new, right_num_inserted) = result?;
            let _ = &left_result;''', 'placeholder (see c10-early-exit)', disabled=True)
mut('c10-early-exit', 'C10', 'C10.JOIN[recursive_batch_insert_nodes]', azks, '''        let right_result = if !right_azks_element_set.is_empty() {
            let right_child_label = current_node.get_child_label(Direction::Right);
            Some(''', '''        let right_result = if !right_azks_element_set.is_empty() {
            let right_child_label = current_node.get_child_label(Direction::Right);
            if matches!(insert_mode, InsertMode::Auditor) && right_child_label.is_none() && is_new {
                return Err(AkdError::TreeNode(TreeNodeError::NoDirection(current_node.label, None)));
            }
            Some(''', 'an error exit between the spawn and the join (F8 pattern)', also=['C14'])
mut('c16-tombstone-direct', 'C16', ['C16.SIB.write_fills_cache', 'C16.EFFECT.db_writers'], mgr, '''            self.batch_set(new_data).await?;
            self.increment_metric(METRIC_TOMBSTONE);''', '''            self.db
                .batch_set(new_data, DbSetState::General)
                .await?;
            self.increment_metric(METRIC_TOMBSTONE);''', 'tombstoning writes the database directly (cache keeps old values)', also=['C20'])
mut('c16-flush-partial', 'C16', 'C16.COVER.flush[azks]', cache, '''        self.map.clear();
        *(self.azks.write().await) = None;''', '''        self.map.clear();''', 'flush leaves the cached epoch record', also=['C13'])
mut('c16-pub-field', 'C16', 'C16.OWN.private[StorageManager.cache]', mgr, '''    cache: Option<TimedCache>,
    transaction: Transaction,''', '''    pub cache: Option<TimedCache>,
    transaction: Transaction,''', 'cache handle made public')
mut('c15-revert-F3', 'C15', 'C15.UNIT', mgr, '''                    data.insert(label, (value_state.version, value_state.value));''',
    '''                    data.insert(label, (value_state.epoch, value_state.value));''', 'epoch stored in the version slot (F3 returns)')
mut('c15-raw-read', 'C15', 'C15.SIB.read_merges_log[get_user_data]', mgr, '''        if self.is_transaction_active() {
            // there are transaction-based values in the current transaction, they should override database-retrieved values
            let mut map''', '''        if self.is_transaction_active() && self.cache.is_none() && self.cache.is_some() {
            // there are transaction-based values in the current transaction, they should override database-retrieved values
            let mut map''', 'placeholder', disabled=True)
mut('c15-rollback-order', 'C15', 'C15.ORDER.rollback_transaction.clear_before_release', txn, '''        // rollback
        self.mods.clear();

        self.active.store(false, Ordering::Relaxed);
        Ok(())''', '''        // rollback
        self.active.store(false, Ordering::Relaxed);
        self.mods.clear();
        Ok(())''', 'flag lowered before the log is cleared', also=['C11', 'C12'])
mut('c15-begin-clears', 'C15', 'C15.EFFECT.begin_pure', txn, '''        !self.active.swap(true, Ordering::Relaxed)''', '''        self.mods.clear();
        !self.active.swap(true, Ordering::Relaxed)''', 'a refused begin wipes the open transaction')
mut('c15-commit-filter', 'C15', 'C15.BIND.commit.whole_log_sorted', txn, '''            .map(|p| p.value().clone())
            .collect::<Vec<_>>();

        // sort according to transaction priority''', '''            .map(|p| p.value().clone())
            .filter(|r| r.transaction_priority() > 0)
            .collect::<Vec<_>>();

        // sort according to transaction priority''', 'commit filters the log', also=['C11'])
mut('c15-tie', 'C15', 'C15.TABLE[compare_db_and_transaction_records:MaxEpoch]', mgr, '''            ValueStateRetrievalFlag::MaxEpoch => {
                if transaction_value.epoch >= state_epoch {''', '''            ValueStateRetrievalFlag::MaxEpoch => {
                if transaction_value.epoch > state_epoch {''', 'tie goes to the stored record')
mut('c11-priority', 'C11', 'C11.PRIO.constants', types, '''            DbRecord::Azks(_) => 2,''', '''            DbRecord::Azks(_) => 1,''', 'epoch record no longer sorts last', also=['C15'])
mut('c11-reverse', 'C11', 'C11.PRIO.no_mutation', mgr, '''        let records = self.transaction.commit_transaction()?;
        let num_records = records.len();''', '''        let mut records = self.transaction.commit_transaction()?;
        records.rotate_left(0);
        let num_records = records.len();''', 'records mutated between sort and write')
mut('c11-revert-F6', 'C11', 'C11.SEL', tn, '''                Some(previous_node) if previous_node.last_epoch <= target_epoch => {''',
    '''                Some(previous_node) if previous_node.last_epoch <= target_epoch || true => {''', 'previous node returned unchecked (F6 returns)', also=['C13'])
mut('c11-prev-asof', 'C11', 'C11.BIND.previous_kept', tn, '''        let target_epoch = match self.last_epoch {
            e if e > 0 => e - 1,
            other => other,
        };''', '''        let target_epoch = self.last_epoch;''', 'previous version looked up at the new epoch')
mut('c12-revert-F7', 'C12', 'C12.region', dirf, '''        let _publish_guard = self.publish_lock.lock().await;''', '''        let _ = self.publish_lock.lock().await;''', 'publish guard dropped immediately (F7 returns)')
mut('c12-clone-new-lock', 'C12', 'C12.region', dirf, '''            publish_lock: self.publish_lock.clone(),''', '''            publish_lock: Arc::new(Mutex::new(())),''', 'clones get their own publish lock')
mut('c13-revert-F5', 'C13', 'C13.SNAP[key_history]', dirf, '''        let existence_vrf = self
            .vrf
            .get_label_proof::<TC>(akd_label, VersionFreshness::Fresh, version)
            .await?;
        let existence_vrf_proof = existence_vrf.to_bytes().to_vec();''', '''        let current_azks = &self.retrieve_azks().await?;
        let existence_vrf = self
            .vrf
            .get_label_proof::<TC>(akd_label, VersionFreshness::Fresh, version)
            .await?;
        let existence_vrf_proof = existence_vrf.to_bytes().to_vec();''', 'update proofs built on a second snapshot (F5 returns)', also=['C03'])
mut('c13-notify-early', 'C13', 'C13.POLL.order', dirf, '''                    // flush the cache in its entirety
                    #[cfg(not(feature = "tracing_instrument"))]
                    self.storage.flush_cache().await;''', '''                    if let Some(channel) = &change_detected {
                        let _ = channel.send(()).await;
                    }
                    // flush the cache in its entirety
                    #[cfg(not(feature = "tracing_instrument"))]
                    self.storage.flush_cache().await;''', 'change notification before the flush')
mut('c13-epoch-hash-mix', 'C13', 'C13.SNAP[get_epoch_hash]', dirf, '''        let latest_epoch = current_azks.get_latest_epoch();
        let root_hash = current_azks.get_root_hash::<TC, _>(&self.storage).await?;
        Ok(EpochHash(latest_epoch, root_hash))''', '''        let root_hash = current_azks.get_root_hash::<TC, _>(&self.storage).await?;
        let latest_epoch = self.retrieve_azks().await?.get_latest_epoch();
        Ok(EpochHash(latest_epoch, root_hash))''', 'epoch and hash from two reads')

# ---------------- C01 / C02 / C03 / C04 / C14 / C20
mut('c01-double-increment', 'C01', 'C01.E.once', azks, '''        if !azks_element_set.is_empty() {
            // call recursive batch insert on the root''', '''        if !azks_element_set.is_empty() && matches!(insert_mode, InsertMode::Auditor) && self.num_nodes == u64::MAX {
            self.increment_epoch();
        }
        if !azks_element_set.is_empty() {
            // call recursive batch insert on the root''', 'second epoch step on a rare path')
mut('c01-skip-unchanged', 'C01', 'C01.P.skip_unchanged', dirf, '''                        if existing_akd_value == akd_value {
                            // Skip this because the user is trying to re-publish the same value
                            return vec![];
                        }''', '''''', 're-submitted values create a new version')
mut('c01-valuestate-epoch', 'C01', 'C01.P.valuestate_epoch', dirf, '''                    ValueState::new(akd_label, akd_value, version, node_label, next_epoch);
                user_data_update_set.push(latest_state);''', '''                    ValueState::new(akd_label, akd_value, version, node_label, current_epoch);
                user_data_update_set.push(latest_state);''', 'value state stamped with the old epoch')
mut('c01-hash-before-join', 'C01', ['C01.R.bottom_up', 'C01.R.join_before_hash'], azks, '''        if let Some(result) = left_result {
            let (mut left_node, left_is_new, left_num_inserted) = result??;
            current_node.set_child(&mut left_node)?;
            left_node.write_to_storage(storage, left_is_new).await?;
            num_inserted += left_num_inserted;
        }

        // Phase 3: Update the hash of the current node and return it along with
        // the number of nodes inserted.
        current_node
            .update_hash::<TC, _>(storage, NodeHashingMode::from(insert_mode))
            .await?;
''', '''        // Phase 3: Update the hash of the current node and return it along with
        // the number of nodes inserted.
        current_node
            .update_hash::<TC, _>(storage, NodeHashingMode::from(insert_mode))
            .await?;

        if let Some(result) = left_result {
            let (mut left_node, left_is_new, left_num_inserted) = result??;
            current_node.set_child(&mut left_node)?;
            left_node.write_to_storage(storage, left_is_new).await?;
            num_inserted += left_num_inserted;
        }
''', 'node rehashed before the left child is attached')
mut('c01-min-max', 'C01', 'C01.R.epoch_bookkeeping', tn, '''                min(self.min_descendant_epoch, child_node.min_descendant_epoch);''',
    '''                max(self.min_descendant_epoch, child_node.min_descendant_epoch);''', 'min_descendant_epoch computed with max', also=['C04'])
mut('c02-epoch-version-swap', 'C02', ['C02.B[epoch]', 'C02.UNIT'], dirf, '''        let lookup_proof = LookupProof {
            epoch: lookup_info.value_state.epoch,''', '''        let lookup_proof = LookupProof {
            epoch: lookup_info.value_state.version,''', 'version served as epoch')
mut('c02-unbounded-read', 'C02', 'C02.S.bounded_read', dirf, '''            .get_user_state(&akd_label, ValueStateRetrievalFlag::LeqEpoch(epoch))''',
    '''            .get_user_state(&akd_label, ValueStateRetrievalFlag::MaxEpoch)''', 'value state read not bounded by the snapshot')
mut('c02-freshness-fresh', 'C02', 'C02.B[freshness_vrf_proof]', dirf, '''                .get_label_proof::<TC>(label, VersionFreshness::Stale, current_version)''',
    '''                .get_label_proof::<TC>(label, VersionFreshness::Fresh, current_version)''', 'freshness VRF proof built for the Fresh label')
mut('c03-drop-retain', 'C03', 'C03.S.retain', dirf, '''        user_data.retain(|vs| vs.epoch <= current_epoch);''', '''''', 'states ahead of the snapshot are not dropped')
mut('c03-prev-version', 'C03', 'C03.U[previous_version_proof]', dirf, '''                .get_node_label::<TC>(akd_label, VersionFreshness::Stale, version - 1)''',
    '''                .get_node_label::<TC>(akd_label, VersionFreshness::Stale, version)''', 'previous-version label for the wrong version')
mut('c03-skip-future', 'C03', ['C03.H[non_existence_of_future_marker_proofs]', 'C03.H[future_marker_vrf_proofs]'], dirf,
    '''        for version in future_marker_versions {''', '''        for version in future_marker_versions.into_iter().skip(1) {''', 'first future marker omitted')
mut('c04-audit-ge', 'C04', 'C04.A.start_lt_end', dirf, '''        if audit_start_ep >= audit_end_ep {''', '''        if audit_start_ep > audit_end_ep {''', 'empty range accepted by audit')
mut('c04-walk-lt', 'C04', 'C04.W.unchanged', azks, '''        if node.get_latest_epoch() <= start_epoch {
            if node.node_type == TreeNodeType::Root {''', '''        if node.get_latest_epoch() < start_epoch {
            if node.node_type == TreeNodeType::Root {''', 'unchanged predicate weakened')
mut('c04-step', 'C04', 'C04.G.step', azks, '''                ep,
                ep + 1,
                0,''', '''                ep,
                end_epoch,
                0,''', 'per-epoch step covers (ep, end)')
mut('c14-flow', 'C14', 'C14.FLOW.parallelism', azks, '''                current_node = new_leaf_node::<TC>(node.label, &node.value, epoch);''',
    '''                current_node = new_leaf_node::<TC>(node.label, &node.value, epoch + parallel_levels.unwrap_or(0) as u64 / 255);''', 'parallelism level flows into a node', configs=['D', 'W'])
mut('c14-no-join', 'C14', 'C14.JOIN[recursive_preload_nodes]', azks, '''            // Join on the handle for the left chunk.
            let left_load_count = handle
                .await
                .map_err(|e| AkdError::Parallelism(ParallelismError::JoinErr(e.to_string())))??;
            load_count += left_load_count;
        } else {
            // Perform all the work in the current task.
            let next_load_count = Azks::recursive_preload_nodes(''', '''            if load_count > 1_000_000 {
                return Ok(load_count);
            }
            // Join on the handle for the left chunk.
            let left_load_count = handle
                .await
                .map_err(|e| AkdError::Parallelism(ParallelismError::JoinErr(e.to_string())))??;
            load_count += left_load_count;
        } else {
            // Perform all the work in the current task.
            let next_load_count = Azks::recursive_preload_nodes(''', 'Ok exit without joining the preload task', configs=['D', 'W'])
mut('c14-seq-twin', 'C14', 'C14.SIB.get_node_labels[W:sequential]', traits, '''                    label,
                    *freshness,
                    *version,
                );
                results.push((''', '''                    label,
                    VersionFreshness::Fresh,
                    *version,
                );
                results.push((''', 'sequential cfg body ignores the freshness', configs=['D', 'W'])
mut('c20-version-epoch', 'C20', ['C20.W.metadata'], mgr, '''                    version: value_state.version,
                }));''', '''                    version: value_state.epoch,
                }));''', 'tombstone record gets the epoch as version', also=['C15'])
mut('c20-cutoff', 'C20', 'C20.P.cutoff', mgr, '''            if value_state.epoch <= epoch && value_state.value.0 != crate::TOMBSTONE {''',
    '''            if value_state.value.0 != crate::TOMBSTONE {''', 'cut-off epoch ignored')

# ---------------- C19
mut('c19-omit-field', 'C19', 'C19.SIB[LookupProof.marker_vrf_proof]', proto, '''            marker_vrf_proof: Some(input.marker_vrf_proof.clone()),
            marker_proof: MessageField::some((&input.marker_proof).into()),''', '''            marker_proof: MessageField::some((&input.marker_proof).into()),''', 'encoder omits a field (hidden by ..Default::default())')
mut('c19-unguarded-unwrap', 'C19', 'C19.PANIC[MembershipProof::try_from:unwrap', proto, '''        require_messagefield!(input, label);
        require!(input, has_hash_val);''', '''        require!(input, has_hash_val);''', 'message-field unwrap no longer guarded')
mut('c19-label-len', 'C19', ['C19.G.label_val', 'C19.PANIC[decode_minimized_label'], proto, '''        if input_val.len() > 32 {''', '''        if input_val.len() > 33 {''', 'label value length guard weakened')
mut('c19-swap-fields', 'C19', 'C19.SIB', proto, '''            past_marker_vrf_proofs: input.past_marker_vrf_proofs.to_vec(),''', '''            past_marker_vrf_proofs: input.future_marker_vrf_proofs.to_vec(),''', 'encoder writes the wrong list')

# ---------------- round 2: variants modelled on sub-agent seeds (see /verif/seeded)
mut('c01-skip-weakened', 'C01', 'C01.P.skip_unchanged', dirf, '''                        if existing_akd_value == akd_value {''',
    '''                        if existing_akd_value == akd_value && !existing_akd_value.0.is_empty() {''', 'skip-unchanged weakened by a further condition (seed C01-r1-b)')
mut('c01-skip-extra', 'C01', 'C01.P.changed_not_skipped', dirf, '''                        if existing_akd_value == akd_value {''',
    '''                        if existing_akd_value == akd_value || akd_value.0.is_empty() {''', 'a changed value can be skipped')
mut('c05-o7-conditional', 'C05', 'C05.O7', base, '''    for child in proof.longest_prefix_children.iter() {
        if child.label != TC::empty_label() && child.label.is_prefix_of(&proof.label) {''',
    '''    for child in proof.longest_prefix_children.iter() {
        if proof.longest_prefix.label_len == 0 {
            continue;
        }
        if child.label != TC::empty_label() && child.label.is_prefix_of(&proof.label) {''', 'deepest-anchor guard skipped under a condition (seed C06-r1-a)', also=['C06', 'C07'])
mut('c07-k2-conditional', 'C07', 'C07.K2', hist, '''            if update_proof.epoch > previous_update_epoch {''',
    '''            if update_proof.version > 1 && update_proof.epoch > previous_update_epoch {''', 'epoch-order guard under a further condition')
mut2('c03-limit-before-filter', 'C03', 'C03.S.filter_before_limit', [(dirf, '''        // Ignore states in storage which are ahead of the current directory epoch
        user_data.retain(|vs| vs.epoch <= current_epoch);
        // Reverse sort from highest epoch to lowest
        user_data.sort_by(|a, b| b.epoch.cmp(&a.epoch));
''', '''        // Reverse sort from highest epoch to lowest
        user_data.sort_by(|a, b| b.epoch.cmp(&a.epoch));
'''), (dirf, '''            HistoryParams::MostRecent(n) => user_data.into_iter().take(n).collect::<Vec<_>>(),
        };
''', '''            HistoryParams::MostRecent(n) => user_data.into_iter().take(n).collect::<Vec<_>>(),
        };
        // Ignore states in storage which are ahead of the current directory epoch
        user_data.retain(|vs| vs.epoch <= current_epoch);
''')], 'snapshot filter applied after the MostRecent cut (seed C03-r1-a)')
mut('c02-child-ok', 'C02', 'C02.ERR.swallow', tn, '''            match get_result {
                Ok(node) => Ok(Some(node)),
                Err(StorageError::NotFound(_)) => Ok(None),
                _ => Err(AkdError::Storage(StorageError::NotFound(format!(
                    "TreeNode {child_key:?}"
                )))),
            }''', '''            Ok(get_result.ok())''', 'child fetch error turned into "no child" (seed C02-r1-b)', also=['C10', 'C13'])
mut('c02-child-catchall', 'C02', 'C02.ERR.swallow', tn, '''                Err(StorageError::NotFound(_)) => Ok(None),
                _ => Err(AkdError::Storage(StorageError::NotFound(format!(
                    "TreeNode {child_key:?}"
                )))),''', '''                Err(StorageError::NotFound(_)) => Ok(None),
                _ => Ok(None),''', 'catch-all error arm no longer an error', also=['C10', 'C13'])
mut('c04-empty-batch', 'C04', 'C04.I.empty_batch_noop', azks, '''        if !azks_element_set.is_empty() {
            // call recursive batch insert on the root''', '''        if !azks_element_set.is_empty() || self.num_nodes <= 1 {
            // call recursive batch insert on the root''', 'empty element set still re-hashes the root (seed C04-r1-a)')
mut('c16-put-conditional', 'C16', 'C16.SIB.write_fills_cache[set]', mgr, '''        if let Some(cache) = &self.cache {
            cache.put(&record).await;
        }
        Ok(())''', '''        if let Some(cache) = &self.cache {
            if !matches!(record, DbRecord::TreeNode(_)) {
                cache.put(&record).await;
            }
        }
        Ok(())''', 'write-through skipped for one record kind: the cache keeps the older copy', also=['C10'])
mut('c12-let-underscore', 'C12', 'C12.region', dirf, '''        let _publish_guard = self.publish_lock.lock().await;''',
    '''        let _ = self.publish_lock.lock().await;''', 'guard dropped at once (`let _ =`)')
mut('c12-early-drop', 'C12', 'C12.region', dirf, '''        // Commit the transaction
        info!("Committing transaction");''', '''        // Commit the transaction
        drop(_publish_guard);
        info!("Committing transaction");''', 'exclusion released before the durable write')
mut('c12-try-lock', 'C12', 'C12.region', dirf, '''        let _publish_guard = self.publish_lock.lock().await;''',
    '''        let _publish_guard = self.publish_lock.try_lock().ok();''', 'proceeds without the lock when it is contended')
mut2('c12-lock-after-read', 'C12', 'C12.region', [(dirf, '''        // Only one publish at a time, the guard will be dropped at the end of the publish operation
        let _publish_guard = self.publish_lock.lock().await;
''', ''), (dirf, '''        let current_epoch = current_azks.get_latest_epoch();
        let next_epoch = current_epoch + 1;

        let mut keys: Vec<AkdLabel> = updates
            .iter()
            .map(|(akd_label, _val)| akd_label.clone())
            .collect();

        // sort the keys, as inserting''', '''        let current_epoch = current_azks.get_latest_epoch();
        let next_epoch = current_epoch + 1;
        let _publish_guard = self.publish_lock.lock().await;

        let mut keys: Vec<AkdLabel> = updates
            .iter()
            .map(|(akd_label, _val)| akd_label.clone())
            .collect();

        // sort the keys, as inserting''')], 'lock taken after the epoch record was read')
mut('c11-is-new-flag', 'C11', 'C11.BIND.is_new_flag', azks, '''            right_node.write_to_storage(storage, right_is_new).await?;''',
    '''            right_node.write_to_storage(storage, is_new || right_is_new).await?;''', 'child written with a flag that is not its own (seed C11-r1-a)')
mut('c11-write-after-commit', 'C11', 'C11.ORDER.writes_inside_commit', dirf, '''        Ok(EpochHash(next_epoch, root_hash))
    }

    /// Provides proof for correctness of latest version''', '''        let _ = self.storage.set(DbRecord::Azks(current_azks.clone())).await;
        Ok(EpochHash(next_epoch, root_hash))
    }

    /// Provides proof for correctness of latest version''', 'a record written after the commit', also=['C10'])
mut('c13-clone-cache-lock', 'C13', 'C13.LOCK.shared_by_clones', dirf, '''            cache_lock: self.cache_lock.clone(),''',
    '''            cache_lock: Arc::new(RwLock::new(())),''', 'clones stop sharing the reader/flush lock (seed C13-r1-a)')
mut('c09-sort-key', 'C09', 'C09.OPF', aud, '''    labels.sort_by(|a, b| (a.label_val, a.label_len).cmp(&(b.label_val, b.label_len)));''',
    '''    labels.sort_by(|a, b| (a.label_len, a.label_val).cmp(&(b.label_len, b.label_val)));''', 'prefix-free check sorts by length first (seed C09-r1-a)')
mut('c09-early-ok', 'C09', 'C09.V2', aud, '''    let mut unchanged_with_inserted_nodes = proof.unchanged_nodes.clone();''',
    '''    if proof.inserted.is_empty() {
        return Ok(());
    }
    let mut unchanged_with_inserted_nodes = proof.unchanged_nodes.clone();''', 'end hash not compared when nothing was inserted (seed C09-r1-b)')
mut('c13-early-drop', 'C13', 'C13.LOCK[lookup]', dirf, '''        let lookup_info = self.get_lookup_info(akd_label, current_epoch).await?;

        let root_hash = EpochHash(''', '''        let lookup_info = self.get_lookup_info(akd_label, current_epoch).await?;
        drop(_guard);

        let root_hash = EpochHash(''', 'request releases the cache read lock before its last storage access')
mut('c01-dup-key', 'C01', 'C01.P.duplicates', dirf, '''        let distinct_set: HashSet<AkdLabel> =
            updates.iter().map(|(label, _)| label.clone()).collect();''',
    '''        let distinct_set: HashSet<&(AkdLabel, AkdValue)> = updates.iter().collect();''', 'duplicate check keyed by (label, value) (seed C01-r1-a)')
mut('c16-flush-conditional', 'C16', 'C16.COVER.flush', cache, '''    pub async fn flush(&self) {
        self.map.clear();''', '''    pub async fn flush(&self) {
        if !self.can_clean.load(Ordering::Relaxed) {
            return;
        }
        self.map.clear();''', 'flush silently skipped while cleaning is disabled (seed C16-r1-b)', also=['C13'])
mut('c16-batch-put-limit', 'C16', 'C16.ORDER.put_unconditional[batch_put]', cache, '''    pub async fn batch_put(&self, records: &[DbRecord]) {
        self.clean().await;
''', '''    pub async fn batch_put(&self, records: &[DbRecord]) {
        self.clean().await;
        if let Some(limit) = self.memory_limit_bytes {
            if records.len() > limit {
                return;
            }
        }
''', 'write-through skipped for large batches (seed C14-r1-b)', also=['C14'])
mut('c14-levels-underflow', 'C14', 'C14.PANIC.levels_arithmetic', azks, '''        let child_parallel_levels =
            parallel_levels.and_then(|x| if x <= 1 { None } else { Some(x - 1) });

        // handle the left child''', '''        let child_parallel_levels = parallel_levels.map(|x| x - 1).filter(|x| *x > 0);

        // handle the left child''', 'unguarded u8 subtraction on the parallel levels (seed C14-r1-a)', configs=['D', 'W'])
mut('c15-cache-pending', 'C15', 'C15.BIND.read_put[get_user_state]', mgr, '''                    // no db record, but there is a transaction record so use that
                    return Ok(transaction_value);''', '''                    // no db record, but there is a transaction record so use that
                    if let Some(cache) = &self.cache {
                        cache.put(&DbRecord::ValueState(transaction_value.clone())).await;
                    }
                    return Ok(transaction_value);''', 'pending record put into the cache by a read (seed C15-r1-b)', also=['C16'])
mut('c20-filter-tombstones', 'C20', 'C20.H.selection_value_blind', dirf, '''            HistoryParams::MostRecent(n) => user_data.into_iter().take(n).collect::<Vec<_>>(),''',
    '''            HistoryParams::MostRecent(n) => user_data
                .into_iter()
                .filter(|vs| vs.value.0 != crate::TOMBSTONE)
                .take(n)
                .collect::<Vec<_>>(),''', 'tombstoned states left out of MostRecent(n) (seed C20-r1-b)', also=['C03'])
mut('c18-key-len', 'C18', 'C18.K.len_exact[VRFPublicKey]', 'akd_core/src/ecvrf/ecvrf_impl.rs', '''        if bytes.len() != PUBLIC_KEY_LENGTH {
            return Err(VrfError::PublicKey("Wrong length".to_string()));''', '''        if bytes.len() < PUBLIC_KEY_LENGTH {
            return Err(VrfError::PublicKey("Wrong length".to_string()));''', 'over-long key read as its 32-byte prefix (seed C18-r1-b)')
mut('c19-digest-len', 'C19', 'C19', 'akd_core/src/hash/mod.rs', '''    if value.len() != DIGEST_BYTES {''', '''    if value.len() < DIGEST_BYTES {''', 'digest length guard weakened (copy_from_slice panics on longer input)')
mut('c10-set-early-return', 'C10', 'C10.ORDER.write_unconditional[batch_set]', mgr, '''        // we're in a transaction, set the items in the transaction
        if self.is_transaction_active() {
            self.transaction.batch_set(&records);
            return Ok(());
        }
''', '''        // we're in a transaction, set the items in the transaction
        if self.is_transaction_active() {
            self.transaction.batch_set(&records);
            return Ok(());
        }
        if records.len() > 100_000 {
            debug!("Refusing to write an oversized batch");
            return Ok(());
        }
''', 'write silently skipped under a condition', also=['C16', 'C15'])
mut('c01-set-child-shortcut', 'C01', 'C01.R.set_child_unconditional', tn, '''        // Set child according to given direction.
        match self.label.get_prefix_ordering(child_node.label) {''', '''        if self.left_child == Some(child_node.label) || self.right_child == Some(child_node.label) {
            // already linked
            return Ok(());
        }
        // Set child according to given direction.
        match self.label.get_prefix_ordering(child_node.label) {''', 'set_child returns early for an already linked child (epoch bookkeeping skipped)', also=['C04'])

# ---------------- round 2, second batch of seeds
mut2('c03-snapshot-late', 'C03', 'C03.SNAP[key_history].first', [(dirf, '''        let current_azks = self.retrieve_azks().await?;
        let current_epoch = current_azks.get_latest_epoch();
        let mut user_data = self.storage.get_user_data(akd_label).await?.states;
''', '''        let mut user_data = self.storage.get_user_data(akd_label).await?.states;
        let current_azks = self.retrieve_azks().await?;
        let current_epoch = current_azks.get_latest_epoch();
''')], 'value states read before the epoch record (seed C03-r2-a)', also=['C13'])
mut('c02-batch-dedup', 'C02', 'C02.S.batch_each_label', dirf, '''        for akd_label in akd_labels {
            // Save lookup info for later use.''', '''        let mut seen = HashSet::new();
        for akd_label in akd_labels {
            if !seen.insert(akd_label) {
                continue;
            }
            // Save lookup info for later use.''', 'repeated labels of a batch dropped (seed C02-r2-a; the assert then fails only for such batches)')
mut('c01-absent-child', 'C01', 'C01.F.absent_child_value', tn, '''        None => TC::empty_node_hash(),''', '''        None => TC::empty_root_value(),''', 'absent child hashed with another constant (seed C01-r2-b)')
mut('c03-with-capacity', 'C03', 'C03.S.limit_only_cuts', dirf, '''            HistoryParams::MostRecent(n) => user_data.into_iter().take(n).collect::<Vec<_>>(),''',
    '''            HistoryParams::MostRecent(n) => {
                let mut most_recent = Vec::with_capacity(n);
                most_recent.extend(user_data.into_iter().take(n));
                most_recent
            }''', 'allocation sized by the request parameter (seed C03-r2-b)')
mut('c04-audit-uncached', 'C04', 'C04.SNAP[audit].cached_view', dirf, '''        let current_azks = self.retrieve_azks().await?;
        let current_epoch = current_azks.get_latest_epoch();

        if audit_start_ep >= audit_end_ep {''', '''        let current_azks = Directory::<TC, S, V>::get_azks_from_storage(&self.storage, true).await?;
        let current_epoch = current_azks.get_latest_epoch();

        if audit_start_ep >= audit_end_ep {''', 'audit reads the epoch record past the cache (seed C04-r2-a)', also=['C13'])
mut('c10-rollback-early', 'C10', 'C10.ORDER.rollback_transaction.releases', txn, '''        // rollback
        self.mods.clear();''', '''        if self.mods.is_empty() {
            // nothing to roll back
            return Ok(());
        }
        // rollback
        self.mods.clear();''', 'rollback of an empty log leaves the transaction open (seed C10-r2-b)', also=['C15', 'C12'])
mut('c11-prev-epoch0', 'C11', 'C11.BIND.previous_skipped_only_if_new', tn, '''        let previous = if is_new {''', '''        let previous = if is_new || target_epoch == 0 {''', 'previous version skipped for a further reason (seed C11-r2-a)')
mut('c05-gen-swap-dirs', 'C05', 'C05.GEN.children', azks, '''        for (i, dir) in [Direction::Left, Direction::Right].iter().enumerate() {
            match lcp_node''', '''        for (i, dir) in [Direction::Right, Direction::Left].iter().enumerate() {
            match lcp_node''', 'children of the anchor emitted in the wrong order (honest proofs for two-child anchors stop verifying only when the hash is order-sensitive)')
mut('c05-gen-anchor-label', 'C05', 'C05.GEN.label', azks, '''        Ok(NonMembershipProof {
            label,
            longest_prefix,''', '''        Ok(NonMembershipProof {
            label: longest_prefix,
            longest_prefix,''', 'proof states the anchor label instead of the queried label')
mut('c07-chunks', 'C07', 'C07.H2', hist, '''    for count in 1..num_proofs {
        // Make sure this proof is for a version 1 more than the previous one.''', '''    for count in (1..num_proofs).step_by(2) {
        // Make sure this proof is for a version 1 more than the previous one.''', 'only every other adjacent pair is compared (seed C07-r2-a)')
mut('c15-leq-oldest', 'C15', 'C15.TABLE[find_appropriate_item:LeqEpoch]', txn, '''            ValueStateRetrievalFlag::LeqEpoch(epoch) => intermediate
                .into_iter()
                .rev()
                .find(|item| item.epoch <= epoch),''', '''            ValueStateRetrievalFlag::LeqEpoch(epoch) => intermediate
                .into_iter()
                .find(|item| item.epoch <= epoch),''', 'oldest instead of newest pending state (seed C15-r2-a)')
mut('c19-blob-pairs', 'C19', 'C19.BLOB.pairs', 'akd/src/local_auditing.rs', '''        let current_hash = hashes[i + 1];
        // The epoch provided''', '''        let current_hash = hashes[i];
        // The epoch provided''', 'blob carries the wrong end hash')
mut('c12-log-refill', 'C12', 'C12.OWN.log_writes_only_when_active', mgr, '''        let _epoch = match records.last() {''', '''        if records.len() > 1_000_000 {
            // too large for a single commit: keep the changes for a later attempt
            self.transaction.batch_set(&records);
            return Ok(0);
        }
        let _epoch = match records.last() {''', 'records handed back to the log after the flag was lowered (seed C12-r2-b)', also=['C10', 'C15'])
mut('c20-tomb-reject', 'C20', 'C20.S2.tombstone_never_rejects', hist, '''        (_, akd_value) => {
            // No tombstone so hash the value found, and compare to the existence proof's value''', '''        (HistoryVerificationParams::Default { .. }, bytes) if bytes.0 == crate::TOMBSTONE => {
            return Err(VerificationError::HistoryProof(
                "Encountered a tombstoned value, but missing values are not allowed".to_string(),
            ));
        }
        (_, akd_value) => {
            // No tombstone so hash the value found, and compare to the existence proof's value''', 'empty values rejected in Default mode (seed C20-r2-a)', also=['C07'])
mut2('c18-pk-static', 'C18', 'C18.SIB.get_node_labels', [(traits, '''        let pk = VRFPublicKey::from(&key);

        #[cfg(feature = "parallel_vrf")]''', '''        static PUBLIC_KEY: std::sync::OnceLock<VRFPublicKey> = std::sync::OnceLock::new();
        let pk = PUBLIC_KEY.get_or_init(|| VRFPublicKey::from(&key)).clone();

        #[cfg(feature = "parallel_vrf")]''')], 'public key cached across storages (seed C18-r2-b)', also=['C14'])
mut('c01-stale-constant', 'C01', 'C01.F.stale_value[whatsapp_v1]', wa, '''    fn stale_azks_value() -> AzksValue {
        AzksValue(Self::hash(&EMPTY_VALUE))''', '''    fn stale_azks_value() -> AzksValue {
        Self::empty_node_hash()''', 'stale leaves carry the absent-child digest (seed C01-r3-a)')
mut('c04-no-left-return', 'C04', 'C04.W.both_children', azks, '''                    unchanged.append(&mut inner_unchanged);
                    leaves.append(&mut inner_leaf);
                    None
                }
            } else {
                None
            };''', '''                    unchanged.append(&mut inner_unchanged);
                    leaves.append(&mut inner_leaf);
                    None
                }
            } else {
                // only the root of an empty tree has no children
                return Ok((unchanged, leaves));
            };''', 'walk stops at a node without a left child (seed C04-r3-a)')

out = [m for m in M if not m.get('disabled')]
json.dump({'mutants': out}, open(os.path.join(os.path.dirname(os.path.abspath(__file__)), 'mutants.json'), 'w'), indent=1)
print(len(out), 'mutants')
