#!/usr/bin/env python3
"""Self-test of the checker: apply each seeded variant (one broken rule
instance that still compiles) to a scratch copy of /repo outside /repo and
/verif, run the affected property's rules on it, require a violation of the
named obligation, and remove the copy.  Judges the checker, not the tree:
a variant whose anchor text is gone from /repo is skipped and listed.

usage: selftest/run.py [--property Cxx] [--only id] [--jobs N] [--json out]"""
import argparse
import concurrent.futures as cf
import json
import os
import shutil
import subprocess
import sys
import tempfile
import time

VERIF = os.path.dirname(os.path.dirname(os.path.abspath(__file__)))
sys.path.insert(0, VERIF)
MUT = os.path.join(VERIF, 'selftest', 'mutants.json')


def copy_repo(dst, repo='/repo'):
    os.makedirs(dst)
    for n in ('akd', 'akd_core', 'examples', 'xtask'):
        shutil.copytree(os.path.join(repo, n), os.path.join(dst, n),
                        ignore=shutil.ignore_patterns('target', '.git'))
    for n in ('Cargo.toml', 'Cargo.lock'):
        shutil.copy(os.path.join(repo, n), os.path.join(dst, n))


def apply_edits(root, edits):
    for e in edits:
        p = os.path.join(root, e['file'])
        s = open(p).read()
        if s.count(e['old']) < 1:
            return 'anchor text not found in %s' % e['file']
        if e.get('count', 1) == 1 and s.count(e['old']) != 1:
            return 'anchor text not unique in %s (%d)' % (e['file'], s.count(e['old']))
        s = s.replace(e['old'], e['new'])
        open(p, 'w').write(s)
    return None


def run_one(m, worker):
    """returns dict(id, status: detected|missed|skipped|builderror, detail)"""
    from analysis import runner, extract
    t0 = time.time()
    base = tempfile.mkdtemp(prefix='akd-selftest-')
    root = os.path.join(base, 'repo')
    try:
        copy_repo(root)
        err = apply_edits(root, m['edits'])
        if err:
            return {'id': m['id'], 'status': 'skipped', 'detail': err}
        tdirs = {c: os.path.join(VERIF, '.target', 'M%d-%s' % (worker, c)) for c in ('D', 'W', 'A', 'X')}
        if m.get('benign'):
            # behaviour-preserving variant: every listed property's check must stay silent
            alarms = []
            for pid in m['props']:
                try:
                    ctx, violations, known = runner.run_property(pid, 'quick', repo=root, emit=False, target_dirs=tdirs)
                except extract.ExtractError as e:
                    return {'id': m['id'], 'status': 'builderror', 'detail': str(e)[-600:]}
                alarms += ['%s: %s' % (o['id'], o['detail'][:160]) for o in violations]
            return {'id': m['id'], 'status': 'falsealarm' if alarms else 'silent', 'reported': alarms[:12],
                    'props': m['props'], 'wall_s': round(time.time() - t0, 1)}
        try:
            ctx, violations, known = runner.run_property(m['property'], m.get('tier', 'quick'), repo=root, emit=False,
                                                          target_dirs=tdirs, configs=m.get('configs'))
        except extract.ExtractError as e:
            return {'id': m['id'], 'status': 'builderror', 'detail': str(e)[-600:]}
        ids = [o['id'] for o in violations]
        exp = m['expect'] if isinstance(m['expect'], list) else [m['expect']]
        hit = [i for i in ids if any(i == x or i.startswith(x) for x in exp)]
        st = 'detected' if hit else 'missed'
        return {'id': m['id'], 'status': st, 'reported': ids[:12], 'expected': exp, 'wall_s': round(time.time() - t0, 1)}
    finally:
        shutil.rmtree(base, ignore_errors=True)
        # facts of scratch trees are keyed by path hash: drop them
        import glob
        from analysis import extract as ex
        tag = __import__('hashlib').sha256(os.path.abspath(root).encode()).hexdigest()[:6]
        for d in glob.glob(os.path.join(ex.FACTS, '*-%s-*' % tag)):
            shutil.rmtree(d, ignore_errors=True)


_WID = None


def _init(counter):
    # one target directory per worker PROCESS (two jobs of one process never overlap)
    global _WID
    with counter.get_lock():
        _WID = counter.value
        counter.value += 1


def _worker(args):
    m, w = args
    try:
        return run_one(m, _WID if _WID is not None else w)
    except Exception as e:
        import traceback
        return {'id': m['id'], 'status': 'error', 'detail': '%s %s' % (e, traceback.format_exc()[-800:])}


BEN = os.path.join(VERIF, 'selftest', 'benign.json')


def run_all(prop=None, only=None, jobs=4, own_only=False, benign=False):
    if benign:
        muts = json.load(open(BEN))['benign']
        if prop:
            muts = [dict(m, props=[prop]) for m in muts if prop in m['props']]
            prop = None
    else:
        muts = json.load(open(MUT))['mutants']
    if prop and own_only:
        muts = [m for m in muts if m['property'] == prop]
    elif prop:
        muts = [m for m in muts if m['property'] == prop or prop in m.get('also', [])]
    if only:
        muts = [m for m in muts if m['id'] in only]
    res = []
    # static worker assignment keeps one target dir per process
    import multiprocessing as mp
    counter = mp.Value('i', 0)
    with cf.ProcessPoolExecutor(max_workers=jobs, initializer=_init, initargs=(counter,)) as ex:
        futs = []
        for i, m in enumerate(muts):
            futs.append(ex.submit(_worker, (m, i % jobs)))
        for f in futs:
            res.append(f.result())
    return res


def main():
    ap = argparse.ArgumentParser()
    ap.add_argument('--property')
    ap.add_argument('--only', nargs='*')
    ap.add_argument('--jobs', type=int, default=4)
    ap.add_argument('--json')
    ap.add_argument('--benign', action='store_true')
    a = ap.parse_args()
    res = run_all(a.property, a.only, a.jobs, benign=a.benign)
    for r in res:
        print(r['status'].upper().ljust(10), r['id'], r.get('reported', r.get('detail', ''))
              if r['status'] not in ('detected', 'silent') else '')
    n = {s: sum(1 for r in res if r['status'] == s) for s in ('detected', 'missed', 'silent', 'falsealarm', 'skipped', 'builderror', 'error')}
    print(n)
    if a.json:
        json.dump(res, open(a.json, 'w'), indent=1)
    return 1 if n['missed'] or n['error'] or n['builderror'] or n['falsealarm'] else 0


if __name__ == '__main__':
    sys.exit(main())
