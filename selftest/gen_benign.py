#!/usr/bin/env python3
"""Behaviour-preserving variants for the self-test (the other direction of
DESIGN.md §2.7): each is a small refactoring of /repo that compiles and leaves
the behaviour unchanged (renamed parameter or local, flipped comparison,
guard bound to a temporary, independent statements reordered, `if` rewritten
as `match`, a log line added, constants rescaled, struct-update syntax, a
guard moved into a helper).  The listed properties' checks must stay SILENT on
every one of them: a report is a false alarm of the checker.
Writes selftest/benign.json."""
import json
import os

B = []


def ben(id, props, edits, note=''):
    if isinstance(edits, tuple):
        edits = [edits]
    B.append({'id': id, 'benign': True, 'props': props, 'note': note,
              'edits': [dict({'file': e[0], 'old': e[1], 'new': e[2]}, **({'count': e[3]} if len(e) > 3 else {})) for e in edits]})


base = 'akd_core/src/verify/base.rs'
hist = 'akd_core/src/verify/history.rs'
look = 'akd_core/src/verify/lookup.rs'
dirf = 'akd/src/directory.rs'
azks = 'akd/src/append_only_zks.rs'
tn = 'akd/src/tree_node.rs'
mgr = 'akd/src/storage/manager/mod.rs'
txn = 'akd/src/storage/transaction.rs'
cache = 'akd/src/storage/cache/high_parallelism.rs'
types = 'akd/src/storage/types.rs'
aud = 'akd/src/auditor.rs'
proto = 'akd_core/src/proto/mod.rs'
traits = 'akd_core/src/ecvrf/traits.rs'
VERIFIERS = ['C05', 'C06', 'C07', 'C18', 'C20']

# ---------------------------------------------------------------- verifiers
ben('b-c05-flip-prefix-order', VERIFIERS, (base,
    '''    if proof.label == proof.longest_prefix_children[0].label
        || proof.label == proof.longest_prefix_children[1].label
    {''',
    '''    if proof.longest_prefix_children[1].label == proof.label
        || proof.longest_prefix_children[0].label == proof.label
    {'''), 'operands and disjuncts of the children-label guard swapped')
ben('b-c05-children-alias', VERIFIERS, (base,
    '''    // Verify that proof.longest_prefix is the longest common prefix of the children
    let mut lcp_children = proof.longest_prefix_children[0]
        .label
        .get_longest_common_prefix::<TC>(proof.longest_prefix_children[1].label);''',
    '''    // Verify that proof.longest_prefix is the longest common prefix of the children
    let left_child = &proof.longest_prefix_children[0];
    let right_child = &proof.longest_prefix_children[1];
    let mut lcp_children = left_child
        .label
        .get_longest_common_prefix::<TC>(right_child.label);'''), 'children bound to local references first')
ben('b-c05-membership-if-not', VERIFIERS, (base,
    '''    if TC::compute_root_hash_from_val(&curr_val) == root_hash {
        Ok(())
    } else {
        Err(VerificationError::MembershipProof(format!(
            "Membership proof for label {:?} did not verify",
            proof.label
        )))
    }''',
    '''    let computed_root = TC::compute_root_hash_from_val(&curr_val);
    if computed_root != root_hash {
        return Err(VerificationError::MembershipProof(format!(
            "Membership proof for label {:?} did not verify",
            proof.label
        )));
    }
    Ok(())'''), 'root comparison as early return on !=')
ben('b-c05-o7-explicit', VERIFIERS, (base,
    '''    for child in proof.longest_prefix_children.iter() {
        if child.label != TC::empty_label() && child.label.is_prefix_of(&proof.label) {
            return Err(VerificationError::NonMembershipProof(
                "One of the children's labels is a prefix of the proof's label".to_string(),
            ));
        }
    }''',
    '''    for i in 0..2 {
        let child_label = proof.longest_prefix_children[i].label;
        if child_label == TC::empty_label() {
            continue;
        }
        if child_label.is_prefix_of(&proof.label) {
            return Err(VerificationError::NonMembershipProof(
                "One of the children's labels is a prefix of the proof's label".to_string(),
            ));
        }
    }'''), 'deepest-anchor guard as an index loop with continue')
ben('b-c06-flip-version-guard', VERIFIERS, (look,
    '''    if proof.version > current_epoch {''',
    '''    if current_epoch < proof.version {'''), 'flipped comparison')
ben('b-c06-reorder-checks', VERIFIERS, (look,
    '''    let marker_version = 1 << crate::utils::get_marker_version_log2(proof.version);
    verify_existence::<TC>(
        vrf_public_key,
        root_hash,
        &akd_label,
        VersionFreshness::Fresh,
        marker_version,
        &proof.marker_vrf_proof,
        &proof.marker_proof,
    )?;

    verify_nonexistence::<TC>(
        vrf_public_key,
        root_hash,
        &akd_label,
        VersionFreshness::Stale,
        proof.version,
        &proof.freshness_vrf_proof,
        &proof.freshness_proof,
    )?;
''',
    '''    verify_nonexistence::<TC>(
        vrf_public_key,
        root_hash,
        &akd_label,
        VersionFreshness::Stale,
        proof.version,
        &proof.freshness_vrf_proof,
        &proof.freshness_proof,
    )?;

    let marker_version = 1 << crate::utils::get_marker_version_log2(proof.version);
    verify_existence::<TC>(
        vrf_public_key,
        root_hash,
        &akd_label,
        VersionFreshness::Fresh,
        marker_version,
        &proof.marker_vrf_proof,
        &proof.marker_proof,
    )?;
'''), 'freshness check before marker check')
ben('b-c06-bind-version', VERIFIERS, [(look,
    '''    if proof.version > current_epoch {''',
    '''    let version = proof.version;
    if version > current_epoch {'''), (look,
    '''        VersionFreshness::Stale,
        proof.version,
        &proof.freshness_vrf_proof,''',
    '''        VersionFreshness::Stale,
        version,
        &proof.freshness_vrf_proof,''')], 'proof.version bound to a local')
ben('b-c06-rename-param', VERIFIERS, [(look, 'proof: LookupProof,', 'lookup_proof: LookupProof,'),
                                      (look, 'proof.', 'lookup_proof.', 0)], 'parameter renamed')
ben('b-c07-cmp-as-if', VERIFIERS, (hist,
    '''            use core::cmp::Ordering;
            match num_proofs.cmp(&recency) {
                Ordering::Greater => {
                    return Err(VerificationError::HistoryProof(format!(
                        "Expected at most {recency} update proofs, but got {num_proofs} of them",
                    )))
                }
                Ordering::Less => {
                    if start_version != 1 {
                        return Err(VerificationError::HistoryProof(format!(
                            "Expected at most {recency} update proofs, but got {num_proofs} of them",
                        )));
                    }
                }
                Ordering::Equal => {}
            }''',
    '''            if num_proofs > recency {
                return Err(VerificationError::HistoryProof(format!(
                    "Expected at most {recency} update proofs, but got {num_proofs} of them",
                )));
            }
            if num_proofs < recency && start_version != 1 {
                return Err(VerificationError::HistoryProof(format!(
                    "Expected at most {recency} update proofs, but got {num_proofs} of them",
                )));
            }'''), 'three-way match rewritten as two ifs')
ben('b-c07-flip-consecutive', VERIFIERS, (hist,
    '''        if curr_version + 1 != prev_version {''',
    '''        if prev_version != curr_version + 1 {'''), 'operands swapped')
ben('b-c07-len-flip', VERIFIERS, (hist,
    '''    if past_marker_versions.len() != proof.past_marker_vrf_proofs.len() {''',
    '''    let expected_past = past_marker_versions.len();
    if proof.past_marker_vrf_proofs.len() != expected_past {'''), 'length bound to a local, operands swapped')
ben('b-c07-prev-if-let', VERIFIERS, (hist,
    '''    if proof.version <= 1 {
        // There is no previous version, so we can just return here
        return Ok(verify_result);
    }
''',
    '''    if !(proof.version > 1) {
        // There is no previous version, so we can just return here
        return Ok(verify_result);
    }
'''), 'negated comparison')
ben('b-c18-reorder-parse', VERIFIERS, (base,
    '''    let vrf_pk = crate::ecvrf::VRFPublicKey::try_from(vrf_public_key)?;
    let hashed_label = TC::get_hash_from_label_input(akd_label, freshness, version);

    // VRF proof verification (returns VRF hash output)
    let proof = Proof::try_from(vrf_proof)?;''',
    '''    // VRF proof verification (returns VRF hash output)
    let proof = Proof::try_from(vrf_proof)?;
    let vrf_pk = crate::ecvrf::VRFPublicKey::try_from(vrf_public_key)?;
    let hashed_label = TC::get_hash_from_label_input(akd_label, freshness, version);
'''), 'parse order swapped')
ben('b-c18-label-local', VERIFIERS, (base,
    '''    if NodeLabel::new(output.to_truncated_bytes(), 256) != node_label {''',
    '''    let derived_label = NodeLabel::new(output.to_truncated_bytes(), 256);
    if node_label != derived_label {'''), 'derived label bound to a local, operands swapped')

# ---------------------------------------------------------------- directory / publish
DIRP = ['C01', 'C02', 'C03', 'C10', 'C12', 'C13', 'C14']
ben('b-dir-rename-guard', DIRP, (dirf,
    '''        let _publish_guard = self.publish_lock.lock().await;''',
    '''        let _exclusive = self.publish_lock.lock().await;'''), 'guard variable renamed (still a named binding)')
ben('b-dir-log-lines', DIRP, [(dirf,
    '''            .collect();

        // sort the keys, as inserting''',
    '''            .collect();
        info!("Publishing {} updates on top of epoch {}", updates.len(), current_epoch);

        // sort the keys, as inserting'''), (dirf,
    '''        // Commit the transaction
        info!("Committing transaction");''',
    '''        // Commit the transaction
        info!("Committing transaction for epoch {next_epoch}");''')], 'log lines added/changed')
ben('b-dir-dup-check-flip', DIRP, (dirf,
    '''        if distinct_set.len() != updates.len() {''',
    '''        if updates.len() != distinct_set.len() {'''), 'operands swapped')
ben('b-dir-empty-len', DIRP, (dirf,
    '''        if update_set.is_empty() {
            info!("After filtering''',
    '''        if update_set.len() == 0 {
            info!("After filtering'''), 'is_empty() as len() == 0')
ben('b-dir-records-vec', DIRP, (dirf,
    '''        // batch all the inserts into a single write to storage (in this case it insert's into the transaction log)
        let mut updates = vec![DbRecord::Azks(current_azks.clone())];
        for update in user_data_update_set.into_iter() {
            updates.push(DbRecord::ValueState(update));
        }
        self.storage.batch_set(updates).await?;''',
    '''        let mut records = Vec::with_capacity(user_data_update_set.len() + 1);
        records.push(DbRecord::Azks(current_azks.clone()));
        records.extend(user_data_update_set.into_iter().map(DbRecord::ValueState));
        self.storage.batch_set(records).await?;'''), 'record vector built with extend')
ben('b-dir-commit-if-let', DIRP, (dirf,
    '''        match self.storage.commit_transaction().await {
            Ok(num_records) => {
                info!("Transaction committed ({num_records} records)");
            }
            Err(err) => {
                error!("Failed to commit transaction, rolling back");
                let _ = self.storage.rollback_transaction();
                return Err(AkdError::Storage(err));
            }
        };''',
    '''        if let Err(err) = self.storage.commit_transaction().await {
            error!("Failed to commit transaction, rolling back");
            let _ = self.storage.rollback_transaction();
            return Err(AkdError::Storage(err));
        }
        info!("Transaction committed");'''), 'commit result handled with if let Err')

# ---------------------------------------------------------------- storage
STOR = ['C10', 'C11', 'C12', 'C15', 'C16', 'C20']
ben('b-stor-priority-scale', STOR, (types,
    '''            DbRecord::Azks(_) => 2,
            _ => 1,''',
    '''            DbRecord::Azks(_) => 100,
            _ => 10,'''), 'priority constants rescaled, order kept')
ben('b-stor-priority-explicit', STOR, (types,
    '''            DbRecord::Azks(_) => 2,
            _ => 1,''',
    '''            DbRecord::TreeNode(_) => 0,
            DbRecord::ValueState(_) => 1,
            DbRecord::Azks(_) => 2,'''), 'explicit arms, Azks still strictly last')
ben('b-stor-set-match', STOR, (mgr,
    '''        // update the cache, only once the record is known to be stored
        if let Some(cache) = &self.cache {
            cache.put(&record).await;
        }
        Ok(())''',
    '''        // update the cache, only once the record is known to be stored
        match &self.cache {
            Some(cache) => cache.put(&record).await,
            None => {}
        }
        Ok(())'''), 'if let rewritten as match')
ben('b-stor-tombstone-update-syntax', STOR, (mgr,
    '''                new_data.push(DbRecord::ValueState(ValueState {
                    epoch: value_state.epoch,
                    label: value_state.label,
                    value: crate::AkdValue(crate::TOMBSTONE.to_vec()),
                    username: value_state.username,
                    version: value_state.version,
                }));''',
    '''                new_data.push(DbRecord::ValueState(ValueState {
                    value: crate::AkdValue(crate::TOMBSTONE.to_vec()),
                    ..value_state
                }));'''), 'struct update syntax')
ben('b-stor-tombstone-flip', STOR, (mgr,
    '''            if value_state.epoch <= epoch && value_state.value.0 != crate::TOMBSTONE {''',
    '''            if value_state.value.0 != crate::TOMBSTONE && epoch >= value_state.epoch {'''), 'conjuncts swapped, comparison flipped')
ben('b-stor-commit-sort-by', STOR, (txn,
    '''        records.sort_by_key(|r| r.transaction_priority());''',
    '''        records.sort_by(|a, b| a.transaction_priority().cmp(&b.transaction_priority()));'''), 'sort_by_key as sort_by with cmp')
ben('b-stor-commit-len-first', STOR, (mgr,
    '''        let records = self.transaction.commit_transaction()?;
        let num_records = records.len();
''',
    '''        let records = self.transaction.commit_transaction()?;
        let num_records = records.len();
        debug!("Committing {num_records} records");
'''), 'log line')

# ---------------------------------------------------------------- tree / azks / auditor
TREE = ['C01', 'C04', 'C09', 'C10', 'C11', 'C13', 'C14']
ben('b-azks-range-split', TREE, (azks,
    """        if latest_epoch < end_epoch || end_epoch <= start_epoch {""",
    """        if start_epoch >= end_epoch || end_epoch > latest_epoch {"""), 'range guard: disjuncts swapped and flipped')
ben('b-azks-walk-flip', TREE, (azks,
    """        if node.get_latest_epoch() <= start_epoch {
            if node.node_type == TreeNodeType::Root {""",
    """        let node_last_epoch = node.get_latest_epoch();
        if start_epoch >= node_last_epoch {
            if node.node_type == TreeNodeType::Root {"""), 'unchanged predicate flipped via a local')
ben('b-azks-increment-plus', TREE, (azks,
    """        let epoch = self.latest_epoch + 1;
        self.latest_epoch = epoch;""",
    """        self.latest_epoch += 1;"""), 'increment_epoch rewritten (skipped if the text differs)')
ben('b-tree-setchild-if', TREE, (tn,
    """        self.last_epoch = max(self.last_epoch, child_node.last_epoch);""",
    """        if child_node.last_epoch > self.last_epoch {
            self.last_epoch = child_node.last_epoch;
        }"""), 'max() as if')
ben('b-tree-select-restructure', TREE, (tn,
    """        if self.latest_node.last_epoch > target_epoch {
            match &self.previous_node {
                // the previous value is only usable if it is not itself newer than the target
                // epoch (a reader may be more than one epoch behind the stored record)
                Some(previous_node) if previous_node.last_epoch <= target_epoch => {
                    Ok(previous_node.clone())
                }
                // no (usable) previous, return not found
                _ => Err(StorageError::NotFound(format!(
                    "TreeNode {:?} at epoch {}",
                    NodeKey(self.label),
                    target_epoch
                ))),
            }
        } else {
            // Otherwise the currently targeted epoch just points to the most up-to-date value, retrieve that
            Ok(self.latest_node.clone())
        }""",
    """        if self.latest_node.last_epoch <= target_epoch {
            // the currently targeted epoch just points to the most up-to-date value, retrieve that
            return Ok(self.latest_node.clone());
        }
        if let Some(previous_node) = &self.previous_node {
            if target_epoch >= previous_node.last_epoch {
                return Ok(previous_node.clone());
            }
        }
        Err(StorageError::NotFound(format!(
            "TreeNode {:?} at epoch {}",
            NodeKey(self.label),
            target_epoch
        )))"""), 'selection with early returns')
ben('b-aud-len-flip', TREE, (aud,
    """    if proof.epochs.len() + 1 != hashes.len() {""",
    """    if hashes.len() != proof.epochs.len() + 1 {"""), 'operands swapped')
ben('b-aud-windows', TREE, (aud,
    """    for i in 0..hashes.len() - 1 {
        let start_hash = hashes[i];
        let end_hash = hashes[i + 1];""",
    """    let num_steps = hashes.len() - 1;
    for i in 0..num_steps {
        let (start_hash, end_hash) = (hashes[i], hashes[i + 1]);"""), 'loop bound via a local, tuple binding')
ben('b-aud-hash-cmp', TREE, (aud,
    """    if computed_hash != expected_hash {""",
    """    if expected_hash != computed_hash {"""), 'operands swapped')

# ---------------------------------------------------------------- proto
ben('b-proto-field-order', ['C19'], (proto,
    """        Self {
            label_len: Some(input.label_len),
            label_val: Some(encode_minimum_label(&input.label_val)),
            ..Default::default()
        }""",
    """        let label_val = Some(encode_minimum_label(&input.label_val));
        Self {
            label_val,
            label_len: Some(input.label_len),
            ..Default::default()
        }"""), 'encoder fields reordered, shorthand init')
ben('b-proto-len-flip', ['C19'], (proto,
    """        if input_val.len() > 32 {""",
    """        if 32 < input_val.len() {"""), 'flipped')
ben('b-proto-match-label', ['C19'], (proto,
    """        require_messagefield!(input, label);
        require!(input, has_value);
        let label: crate::NodeLabel = input.label.as_ref().unwrap().try_into()?;

        // get the raw data & it's length, but at most crate::hash::DIGEST_BYTES bytes
        let value = hash_from_bytes!(input.value());

        Ok(Self {
            label,
            value: AzksValue(value),
        })""",
    """        require!(input, has_value);
        let label: crate::NodeLabel = match input.label.as_ref() {
            Some(label) => label.try_into()?,
            None => {
                return Err(ConversionError::Deserialization(
                    "Required field input missing. 'label'".to_string(),
                ))
            }
        };

        // get the raw data & it's length, but at most crate::hash::DIGEST_BYTES bytes
        let value = hash_from_bytes!(input.value());

        Ok(Self {
            label,
            value: AzksValue(value),
        })"""), 'required field handled by match instead of guard + unwrap')

# ---------------------------------------------------------------- cache
ben('b-cache-log', ['C13', 'C16'], (cache,
    """    pub async fn flush(&self) {""",
    """    pub async fn flush(&self) {
        debug!("Flushing the object cache");"""), 'log line in flush')

ben('b-c03-truncate', ['C03', 'C13'], (dirf,
    '''        user_data = match params {
            HistoryParams::Complete => user_data,
            HistoryParams::MostRecent(n) => user_data.into_iter().take(n).collect::<Vec<_>>(),
        };''',
    '''        if let HistoryParams::MostRecent(n) = params {
            user_data.truncate(n);
        }'''), 'take(n) rewritten as in-place truncate(n), still after the filter and the sort')
ben('b-tree-child-match-order', ['C02', 'C10', 'C13'], (tn,
    '''            match get_result {
                Ok(node) => Ok(Some(node)),
                Err(StorageError::NotFound(_)) => Ok(None),
                _ => Err(AkdError::Storage(StorageError::NotFound(format!(
                    "TreeNode {child_key:?}"
                )))),
            }''',
    '''            match get_result {
                Err(StorageError::NotFound(_)) => Ok(None),
                Err(_) => Err(AkdError::Storage(StorageError::NotFound(format!(
                    "TreeNode {child_key:?}"
                )))),
                Ok(node) => Ok(Some(node)),
            }'''), 'match arms reordered, catch-all spelled Err(_)')

# ---------------------------------------------------------------- helper extraction (depth-1 inlining of guards / checked calls)
ben('b-c06-helper-guard', VERIFIERS, [(look,
    '''    if proof.version > current_epoch {
        return Err(VerificationError::LookupProof(alloc::format!(
            "Proof version {} is greater than current epoch {}",
            proof.version,
            current_epoch
        )));
    }
''',
    '''    check_version_not_in_future(proof.version, current_epoch)?;
'''), (look,
    '''/// Verifies a lookup with respect to the root_hash
pub fn lookup_verify''',
    '''fn check_version_not_in_future(version: u64, current_epoch: u64) -> Result<(), VerificationError> {
    if version > current_epoch {
        return Err(VerificationError::LookupProof(alloc::format!(
            "Proof version {} is greater than current epoch {}",
            version,
            current_epoch
        )));
    }
    Ok(())
}

/// Verifies a lookup with respect to the root_hash
pub fn lookup_verify''')], 'version guard moved into a helper called with `?`')
ben('b-c06-helper-call', VERIFIERS, [(look,
    '''    let marker_version = 1 << crate::utils::get_marker_version_log2(proof.version);
    verify_existence::<TC>(
        vrf_public_key,
        root_hash,
        &akd_label,
        VersionFreshness::Fresh,
        marker_version,
        &proof.marker_vrf_proof,
        &proof.marker_proof,
    )?;
''',
    '''    verify_marker::<TC>(vrf_public_key, root_hash, &akd_label, &proof)?;
'''), (look,
    '''/// Verifies a lookup with respect to the root_hash
pub fn lookup_verify''',
    '''fn verify_marker<TC: Configuration>(
    vrf_public_key: &[u8],
    root_hash: Digest,
    akd_label: &AkdLabel,
    proof: &LookupProof,
) -> Result<(), VerificationError> {
    let marker_version = 1 << crate::utils::get_marker_version_log2(proof.version);
    verify_existence::<TC>(
        vrf_public_key,
        root_hash,
        akd_label,
        VersionFreshness::Fresh,
        marker_version,
        &proof.marker_vrf_proof,
        &proof.marker_proof,
    )?;
    Ok(())
}

/// Verifies a lookup with respect to the root_hash
pub fn lookup_verify''')], 'marker check moved into a helper called with `?`')
ben('b-c09-helper-guard', TREE, [(aud,
    '''    if proof.epochs.len() != proof.proofs.len() {
        return Err(AkdError::AuditErr(AuditorError::VerifyAuditProof(format!(
            "The proof has {} epochs and {} proofs. These should be equal!",
            proof.epochs.len(),
            proof.proofs.len()
        ))));
    }
''',
    '''    check_proof_shape(&proof)?;
'''), (aud,
    '''/// Verifies an audit proof, given start and end hashes for a merkle patricia tree.''',
    '''fn check_proof_shape(proof: &AppendOnlyProof) -> Result<(), AkdError> {
    if proof.epochs.len() != proof.proofs.len() {
        return Err(AkdError::AuditErr(AuditorError::VerifyAuditProof(format!(
            "The proof has {} epochs and {} proofs. These should be equal!",
            proof.epochs.len(),
            proof.proofs.len()
        ))));
    }
    Ok(())
}

/// Verifies an audit proof, given start and end hashes for a merkle patricia tree.''')], 'length guard moved into a helper')

# ---------------------------------------------------------------- renamed / moved functions (frozen signatures, mir._anchor_renames)
ben('b-rename-verify-nonmembership', VERIFIERS, [(base, 'verify_nonmembership::<TC>', 'verify_absence_in_tree::<TC>', 0),
                                                 (base, 'pub(crate) fn verify_nonmembership<TC', 'pub(crate) fn verify_absence_in_tree<TC')],
    'anchor function renamed (all uses)')
ben('b-rename-determine-node', ['C11', 'C13', 'C02'], [(tn, 'determine_node_to_get', 'select_node_as_of', 0), (azks, 'determine_node_to_get', 'select_node_as_of', 0)],
    'selector function renamed (all uses)')

# ---------------------------------------------------------------- larger extractions in server code (known limits are documented in DESIGN §2.8)
ben('b-dir-helper-duplicates', ['C01', 'C10', 'C12'], [(dirf,
    '''        // Check for duplicate labels and return an error if any are encountered
        let distinct_set: HashSet<AkdLabel> =
            updates.iter().map(|(label, _)| label.clone()).collect();
        if distinct_set.len() != updates.len() {
            return Err(AkdError::Directory(DirectoryError::Publish(
                "Cannot publish with a set of entries that contain duplicate labels".to_string(),
            )));
        }
''',
    '''        // Check for duplicate labels and return an error if any are encountered
        ensure_distinct_labels(&updates)?;
'''), (dirf,
    '''// Manual implementation of Clone, see: https://github.com/rust-lang/rust/issues/41481''',
    '''fn ensure_distinct_labels(updates: &[(AkdLabel, AkdValue)]) -> Result<(), AkdError> {
    let distinct_set: HashSet<AkdLabel> = updates.iter().map(|(label, _)| label.clone()).collect();
    if distinct_set.len() != updates.len() {
        return Err(AkdError::Directory(DirectoryError::Publish(
            "Cannot publish with a set of entries that contain duplicate labels".to_string(),
        )));
    }
    Ok(())
}

// Manual implementation of Clone, see: https://github.com/rust-lang/rust/issues/41481''')], 'duplicate-label guard moved into a sync helper')

# ---------------------------------------------------------------- benign forms for the round-2 rules
ben('b-tree-prev-negated', ['C11', 'C01'], [(tn,
    '''        let previous = if is_new {
            None
        } else {
            match TreeNodeWithPreviousValue::get_appropriate_tree_node_from_storage(''',
    '''        let previous = if !is_new {
            match TreeNodeWithPreviousValue::get_appropriate_tree_node_from_storage('''), (tn,
    '''                Err(other) => return Err(other),
            }
        };''',
    '''                Err(other) => return Err(other),
            }
        } else {
            None
        };''')], 'arms of the is_new decision swapped')
ben('b-tree-absent-child-let', ['C01', 'C04'], (tn,
    '''        None => TC::empty_node_hash(),''',
    '''        None => {
            let absent = TC::empty_node_hash();
            absent
        }'''), 'absent-child value bound to a local')
ben('b-cache-flush-order', ['C13', 'C16', 'C14'], (cache,
    '''        self.map.clear();
        *(self.azks.write().await) = None;''',
    '''        *(self.azks.write().await) = None;
        self.map.clear();'''), 'the two clears of flush swapped')
ben('b-txn-set-inline', ['C10', 'C15', 'C16'], (txn,
    '''        let bin_id = record.get_full_binary_id();

        self.mods.insert(bin_id, record.clone());''',
    '''        self.mods.insert(record.get_full_binary_id(), record.clone());'''), 'temporary inlined')
ben('b-dir-batch-index-loop', ['C02', 'C13'], (dirf,
    '''        for akd_label in akd_labels {
            // Save lookup info for later use.
            let lookup_info = self
                .get_lookup_info(akd_label.clone(), current_epoch)
                .await?;
            lookup_infos.push(lookup_info.clone());
        }''',
    '''        for akd_label in akd_labels.iter() {
            // Save lookup info for later use.
            let lookup_info = self
                .get_lookup_info(akd_label.clone(), current_epoch)
                .await?;
            lookup_infos.push(lookup_info);
        }'''), 'explicit iter(), no clone of the info')

ben('b-c07-windows', VERIFIERS, (hist,
    '''    for count in 1..num_proofs {
        // Make sure this proof is for a version 1 more than the previous one.
        let prev_version = proof.update_proofs[count - 1].version;
        let curr_version = proof.update_proofs[count].version;
        if curr_version + 1 != prev_version {
            return Err(VerificationError::HistoryProof(format!(
                "Update proofs should be ordered consecutively and in decreasing order.
                Error detected with version {} at index {}, followed by version {} at index {}",
                prev_version,
                count - 1,
                curr_version,
                count
            )));
        }
    }''',
    '''    for pair in proof.update_proofs.windows(2) {
        // Make sure this proof is for a version 1 more than the previous one.
        let prev_version = pair[0].version;
        let curr_version = pair[1].version;
        if curr_version + 1 != prev_version {
            return Err(VerificationError::HistoryProof(format!(
                "Update proofs should be ordered consecutively and in decreasing order.
                Error detected with version {}, followed by version {}",
                prev_version, curr_version
            )));
        }
    }'''), 'index loop over adjacent pairs rewritten with windows(2)')

ben('b-mgr-set-ifelse', ['C10', 'C14', 'C15', 'C16'], (mgr,
    '''        // we're in a transaction, set the item in the transaction
        if self.is_transaction_active() {
            self.transaction.set(&record);
            return Ok(());
        }

        // write to the database
        self.tic_toc(METRIC_WRITE_TIME, self.db.set(record.clone()))
            .await?;
        self.increment_metric(METRIC_SET);

        // update the cache, only once the record is known to be stored
        if let Some(cache) = &self.cache {
            cache.put(&record).await;
        }
        Ok(())''',
    '''        if self.is_transaction_active() {
            // we're in a transaction, set the item in the transaction
            self.transaction.set(&record);
        } else {
            // write to the database
            self.tic_toc(METRIC_WRITE_TIME, self.db.set(record.clone()))
                .await?;
            self.increment_metric(METRIC_SET);

            // update the cache, only once the record is known to be stored
            if let Some(cache) = &self.cache {
                cache.put(&record).await;
            }
        }
        Ok(())'''), 'single-exit form with the cache fill kept on the database branch (the correct twin of seed C14-r2-b)')
ben('b-traits-pk-rename', ['C14', 'C18'], [(traits,
    '''        let pk = VRFPublicKey::from(&key);

        #[cfg(feature = "parallel_vrf")]''',
    '''        let public_key = VRFPublicKey::from(&key);
        let pk = public_key;

        #[cfg(feature = "parallel_vrf")]''')], 'public key bound under another name first')
ben('b-txn-rollback-local', ['C10', 'C12', 'C15'], (txn,
    '''        // rollback
        self.mods.clear();

        self.active.store(false, Ordering::Relaxed);
        Ok(())''',
    '''        // rollback
        let pending = self.mods.len();
        self.mods.clear();
        crate::log::debug!("Rolled back {pending} pending records");

        self.active.store(false, Ordering::Relaxed);
        Ok(())'''), 'log line with the number of discarded records')

ben('b-cache-batch-put-empty', ['C14', 'C16'], (cache,
    '''    pub async fn batch_put(&self, records: &[DbRecord]) {
        self.clean().await;
''',
    '''    pub async fn batch_put(&self, records: &[DbRecord]) {
        if records.is_empty() {
            return;
        }
        self.clean().await;
'''), 'early return for an empty batch')
ben('b-txn-batch-set-empty', ['C10', 'C15', 'C16'], (txn,
    '''    pub fn batch_set(&self, records: &[DbRecord]) {
        for record in records {''',
    '''    pub fn batch_set(&self, records: &[DbRecord]) {
        if records.is_empty() {
            return;
        }
        for record in records {'''), 'early return for an empty batch')

ben('b-cfg-stale-via-root', ['C01', 'C07', 'C18'], ('akd_core/src/configuration/whatsapp_v1.rs',
    '''    fn stale_azks_value() -> AzksValue {
        AzksValue(Self::hash(&EMPTY_VALUE))''',
    '''    fn stale_azks_value() -> AzksValue {
        Self::empty_root_value()'''), 'stale value expressed through the helper that is the same digest in this configuration')

out = os.path.join(os.path.dirname(os.path.abspath(__file__)), 'benign.json')
json.dump({'benign': B}, open(out, 'w'), indent=1)
print('%d benign variants -> %s' % (len(B), out))
